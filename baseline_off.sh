#!/bin/sh
# Runs go-spdx's own test suite with the verification build tag OFF and compares the set of
# passing tests with /root/.vp/BASELINE.json's stable_pass list (when that file is present).
# Exit 0 iff every baseline test passes and no test fails.
REPO="${VERIF_REPO:-/repo}"
export GOFLAGS=-mod=mod GOPROXY=off GOSUMDB=off GOTOOLCHAIN=local
cd "$REPO" || exit 2
go test -mod=mod -json -vet=off -count=1 -timeout 25m ./... > /tmp/verif-baseline.$$.json 2>/dev/null
python3 - /tmp/verif-baseline.$$.json <<'PY'
import json, sys, os
passed, failed = set(), set()
for line in open(sys.argv[1]):
    try:
        e = json.loads(line)
    except ValueError:
        continue
    if e.get("Test") and e.get("Action") in ("pass", "fail"):
        name = "%s::%s" % (e["Package"], e["Test"])
        (passed if e["Action"] == "pass" else failed).add(name)
missing = []
bp = "/root/.vp/BASELINE.json"
if os.path.exists(bp):
    base = set(json.load(open(bp))["stable_pass"])
    missing = sorted(base - passed)
print("passed=%d failed=%d baseline_missing=%d" % (len(passed), len(failed), len(missing)))
for n in sorted(failed)[:20] + missing[:20]:
    print("  NOT PASSING:", n)
sys.exit(1 if failed or missing else 0)
PY
rc=$?
rm -f /tmp/verif-baseline.$$.json
exit $rc
