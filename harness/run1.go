package main

import (
	"encoding/hex"
	"encoding/json"
	"fmt"
	"math/rand"
	"os"
)

// cmdRun1 re-runs one recorded disagreement (a replay file written by ./check) on the current tree.
//
//	run1 <replay.json>                S->I: the file holds the TLC record; it is replayed and judged again
//	run1 -event <replay.json> <out>   I->S: the call is executed again and written as a one-event trace for SpdxTrace.tla
func cmdRun1(args []string) int {
	if len(args) >= 3 && args[0] == "-event" {
		b, err := os.ReadFile(args[1])
		if err != nil {
			fmt.Fprintln(os.Stderr, err)
			return 2
		}
		var m Mismatch
		if err := json.Unmarshal(b, &m); err != nil {
			fmt.Fprintln(os.Stderr, err)
			return 2
		}
		recordStages()
		defer setHook(nil)
		if len(m.RawHex) > 0 { // exact bytes of the original call
			raw := make([]string, len(m.RawHex))
			for i, h := range m.RawHex {
				b, _ := hex.DecodeString(h)
				raw[i] = string(b)
			}
			m.Expr = raw[0]
			m.List = raw[1:]
		}
		var ev Event
		switch m.Fn {
		case "Satisfies":
			ev = eventOf(obsSatisfies(m.Expr, m.List), m.Expr, m.List)
		case "ExtractLicenses":
			ev = eventOf(obsExtract(m.Expr), m.Expr, nil)
		default:
			ev = eventOf(obsValidate(m.List), "", m.List)
		}
		ev.Seq = 1
		if ev.A == nil {
			ev.A = []string{}
		}
		f, err := os.Create(args[2])
		if err != nil {
			fmt.Fprintln(os.Stderr, err)
			return 2
		}
		defer f.Close()
		enc := json.NewEncoder(f)
		enc.SetEscapeHTML(false)
		enc.Encode(ev)
		out, _ := json.MarshalIndent(ev, "", " ")
		fmt.Println("observed now:", string(out))
		return 0
	}
	if len(args) != 1 {
		fmt.Fprintln(os.Stderr, "usage: harness run1 <replay.json> | run1 -event <replay.json> <trace-out>")
		return 2
	}
	b, err := os.ReadFile(args[0])
	if err != nil {
		fmt.Fprintln(os.Stderr, err)
		return 2
	}
	var m Mismatch
	if err := json.Unmarshal(b, &m); err != nil {
		fmt.Fprintln(os.Stderr, err)
		return 2
	}
	if m.Rec == nil {
		fmt.Fprintln(os.Stderr, "replay file has no TLC record (use -event)")
		return 2
	}
	t := loadTables()
	r := &replayer{prop: m.Prop, anchor: t.Active[0], byKind: map[string]int64{}, tallies: map[string]int{}, accepted: map[string]bool{}}
	for _, id := range t.Active {
		if id == "MIT" {
			r.anchor = id
		}
	}
	r.checkRec(m.Rec, rand.New(rand.NewSource(1)))
	same := 0
	for _, x := range r.mism {
		if x.What == m.What {
			same++
		}
	}
	out, _ := json.MarshalIndent(map[string]interface{}{"recorded": map[string]interface{}{"what": m.What, "fn": m.Fn, "expr": m.Expr, "list": m.List, "expected": m.Expected},
		"disagreements_now": r.mism}, "", " ")
	fmt.Println(string(out))
	if same > 0 {
		fmt.Printf("VIOLATION property=%s replay=%s\n", m.Prop, args[0])
		return 1
	}
	fmt.Println("the recorded disagreement does not occur on the current tree")
	return 0
}
