package main

import "github.com/github/go-spdx/v2/spdxexp"

func satisfiesDirect(e string, allowed []string) (bool, error) {
	defer journal("Satisfies", e, allowed)()
	return spdxexp.Satisfies(e, allowed)
}
func validateDirect(l []string) (bool, []string) {
	defer journal("ValidateLicenses", "", l)()
	return spdxexp.ValidateLicenses(l)
}
