package main

import "github.com/github/go-spdx/v2/spdxexp"

func satisfiesDirect(e string, allowed []string) (bool, error) { return spdxexp.Satisfies(e, allowed) }
func validateDirect(l []string) (bool, []string)               { return spdxexp.ValidateLicenses(l) }
