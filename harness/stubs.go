package main

func cmdRun1(args []string) int { return 2 }
