package main

func cmdConc(args []string) int    { return 2 }
func cmdMeasure(args []string) int { return 2 }
func cmdRun1(args []string) int    { return 2 }
