package main

import (
	"encoding/hex"
	"encoding/json"
	"fmt"
	"os"
	"sync"
	"sync/atomic"
	"syscall"
	"time"
)

// The journal answers one question after the harness process has DIED (a fatal runtime error such as a stack
// overflow or an out-of-memory abort cannot be recovered, so no observation is ever written): which call was
// running?  Before every call of an exported function the calling goroutine writes the exact arguments into a
// free slot of a sparse file (VERIF_JOURNAL); a goroutine that never comes back leaves its call there.  ./check
// reads the slots after a death and runs every candidate alone in a fresh process; only a call that kills that
// process too is reported (reason "crash").
const (
	journalSlots    = 4096
	journalSlotSize = 64 << 10
)

var (
	journalMem     []byte
	journalFree    chan int
	journalOnce    sync.Once
	journalPending [journalSlots]atomic.Int64 // start of the call in the slot (unix nanoseconds), 0 = none
	// HangAfter: a single call of an exported function that has not returned after this long stops the process (exit 5).
	// Calls in the bulk stages take microseconds to milliseconds; ./check then re-runs the pending calls alone.
	journalHangAfter = 120 * time.Second
)

type journalRec struct {
	Fn   string   `json:"fn"`
	Args []string `json:"args"` // hex; expression first (empty for ValidateLicenses), then the list
}

// The file is mapped shared: a slot is written with plain memory copies (no system call per call of the
// library), and the pages survive the death of the process in the page cache.
func journalOpen() {
	p := os.Getenv("VERIF_JOURNAL")
	if p == "" {
		return
	}
	f, err := os.OpenFile(p, os.O_CREATE|os.O_RDWR|os.O_TRUNC, 0o644)
	if err != nil {
		return
	}
	defer f.Close()
	if f.Truncate(journalSlots*journalSlotSize) != nil {
		return
	}
	m, err := syscall.Mmap(int(f.Fd()), 0, journalSlots*journalSlotSize, syscall.PROT_READ|syscall.PROT_WRITE, syscall.MAP_SHARED)
	if err == nil {
		journalFree = make(chan int, journalSlots)
		for i := 0; i < journalSlots; i++ {
			journalFree <- i
		}
		journalMem = m
		if os.Getenv("VERIF_HANG_MONITOR") != "" {
			go journalMonitor()
		}
	}
}

func journalMonitor() {
	for {
		time.Sleep(time.Second)
		now := time.Now().UnixNano()
		for i := range journalPending {
			if t := journalPending[i].Load(); t != 0 && now-t > int64(journalHangAfter) {
				fmt.Fprintf(os.Stderr, "verif: a call of an exported function has not returned after %v (journal slot %d)\n", journalHangAfter, i)
				os.Exit(5)
			}
		}
	}
}

// journal records the call the current goroutine is about to make; the returned function marks it as returned.
// First byte of a slot: '{' = a call that has not returned, 'D' = returned.
func journal(fn, e string, l []string) func() {
	journalOnce.Do(journalOpen)
	if journalMem == nil {
		return func() {}
	}
	idx := <-journalFree // a call that never returns keeps its slot
	slot := journalMem[idx*journalSlotSize:][:journalSlotSize]
	rec := journalRec{Fn: fn, Args: []string{hex.EncodeToString([]byte(e))}}
	for _, x := range l {
		rec.Args = append(rec.Args, hex.EncodeToString([]byte(x)))
	}
	b, _ := json.Marshal(rec)
	if len(b)+1 > journalSlotSize {
		b, _ = json.Marshal(journalRec{Fn: fn + " (arguments too large for the journal)"})
	}
	slot[0] = 'W'
	copy(slot[1:], b[1:])
	slot[len(b)] = '\n'
	slot[0] = '{'
	journalPending[idx].Store(time.Now().UnixNano())
	return func() { journalPending[idx].Store(0); slot[0] = 'D'; journalFree <- idx }
}
