//go:build verif

package main

import "github.com/github/go-spdx/v2/spdxexp"

const hooksAvailable = true

func setHook(h func(fn, stage string)) { spdxexp.VerifHook = h }
