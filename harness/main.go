// Command harness binds the TLA+ specification in /verif/spec to the real
// go-spdx code of the working tree.  Sub-commands:
//
//	export   dump the shipped tables (read through the real spdxlicenses package)
//	replay   S->I: run behaviours emitted by TLC on the real code and compare
//	drive    I->S: call the real code on driver-chosen inputs and record a trace
//	conc     C13: concurrent / gated-schedule / history replays
//	measure  C14: cost of one family member (run in a watched subprocess)
//	run1     run one call given as JSON (used by --replay)
package main

import (
	"fmt"
	"os"
	"runtime/debug"
	"strconv"
)

func main() {
	if len(os.Args) < 2 {
		fmt.Fprintln(os.Stderr, "usage: harness <export|replay|drive|conc|measure|run1> ...")
		os.Exit(2)
	}
	cmd, args := os.Args[1], os.Args[2:]
	switch cmd {
	case "replay", "drive", "conc", "longoffsets", "measure":
		// The bulk sub-commands run millions of SMALL calls, 16 at a time.  A call that recurses without end would grow
		// each worker's stack to the default limit of 1 GB before the runtime gives up; the limit is lowered so that the
		// process dies quickly and cheaply.  The verdict never comes from this process: ./check re-runs the candidate
		// calls alone through "run1", under the runtime's default limit (and "extremes" - deep nests - keeps the default).
		debug.SetMaxStack(256 << 20)
	case "run1":
		if mb, err := strconv.Atoi(os.Getenv("VERIF_MAXSTACK_MB")); err == nil && mb > 0 {
			debug.SetMaxStack(mb << 20) // first pass of the crash attribution; the confirming run uses the default
		}
	}
	switch cmd {
	case "export":
		os.Exit(cmdExport(args))
	case "replay":
		os.Exit(cmdReplay(args))
	case "drive":
		os.Exit(cmdDrive(args))
	case "conc":
		os.Exit(cmdConc(args))
	case "measure":
		os.Exit(cmdMeasure(args))
	case "longoffsets":
		os.Exit(cmdLongOffsets(args))
	case "extremes":
		os.Exit(cmdExtremes(args))
	case "run1":
		os.Exit(cmdRun1(args))
	default:
		fmt.Fprintln(os.Stderr, "unknown sub-command", cmd)
		os.Exit(2)
	}
}
