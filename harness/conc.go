package main

import (
	"bufio"
	"bytes"
	"encoding/json"
	"flag"
	"fmt"
	"io"
	"math/rand"
	"os"
	"reflect"
	"runtime"
	"strconv"
	"strings"
	"sync"
	"syscall"
	"time"
)

// ConcCall is one call of a concurrent workload; Arg names the shared slice it uses.
type ConcCall struct {
	Fn  string `json:"fn"`
	E   string `json:"e"`
	Arg string `json:"arg"`
}

type ConcWorkload struct {
	Mem   map[string][]string `json:"mem"`
	Calls []ConcCall          `json:"calls"`
}

func goid() int64 {
	var buf [64]byte
	n := runtime.Stack(buf[:], false)
	// "goroutine 123 ["
	f := bytes.Fields(buf[:n])
	id, _ := strconv.ParseInt(string(f[1]), 10, 64)
	return id
}

// sharedMem holds the caller-owned slices with guard cells, and pristine copies.
type sharedMem struct {
	arg      map[string][]string
	backing  map[string][]string
	pristine map[string][]string
}

func newSharedMem(mem map[string][]string) *sharedMem {
	s := &sharedMem{arg: map[string][]string{}, backing: map[string][]string{}, pristine: map[string][]string{}}
	for k, v := range mem {
		a, b, p := guarded(append([]string{}, v...))
		s.arg[k], s.backing[k], s.pristine[k] = a, b, p
	}
	return s
}

func (s *sharedMem) intact() bool {
	for k := range s.backing {
		if !sameStrings(s.backing[k], s.pristine[k]) {
			return false
		}
	}
	return true
}

func runCall(c ConcCall, mem *sharedMem) Obs {
	switch c.Fn {
	case "Satisfies":
		return obsSatisfiesRaw(c.E, mem.arg[c.Arg])
	case "ExtractLicenses":
		return obsExtract(c.E)
	default:
		return obsValidateRaw(mem.arg[c.Arg])
	}
}

// schedule replay -----------------------------------------------------------

var schedMu sync.Mutex

type schedResult struct {
	What   string
	Detail interface{}
}

// replaySchedule runs the workload with one goroutine per call, letting goroutine order[i]
// proceed to its next stage hook at step i.  Returns problems found.
func replaySchedule(w *ConcWorkload, order []int, seqRes []Obs) []schedResult {
	schedMu.Lock()
	defer schedMu.Unlock()
	var problems []schedResult
	if !hooksAvailable {
		return []schedResult{{"no-hooks", "harness built without the verif tag"}}
	}
	mem := newSharedMem(w.Mem)
	n := len(w.Calls)
	release := make([]chan struct{}, n)
	at := make([]chan string, n)
	results := make([]Obs, n)
	exited := make([]bool, n)
	var idMu sync.Mutex
	ids := map[int64]int{}
	for g := 0; g < n; g++ {
		release[g] = make(chan struct{})
		at[g] = make(chan string, 1)
	}
	setHook(func(fn, stage string) {
		idMu.Lock()
		g, ok := ids[goid()]
		idMu.Unlock()
		if !ok {
			return
		}
		at[g] <- stage
		<-release[g]
	})
	defer setHook(nil)
	for g := 0; g < n; g++ {
		go func(g int) {
			idMu.Lock()
			ids[goid()] = g
			idMu.Unlock()
			<-release[g]
			results[g] = runCall(w.Calls[g], mem)
			at[g] <- "exit"
		}(g)
	}
	stages := make([][]string, n)
	for step, g1 := range order {
		g := g1 - 1
		if g < 0 || g >= n {
			return []schedResult{{"bad-schedule", order}}
		}
		if exited[g] {
			problems = append(problems, schedResult{"stage-sequence", map[string]interface{}{"goroutine": g1, "step": step + 1,
				"detail": "the code finished this call in fewer stages than the specification", "seen": stages[g]}})
			continue
		}
		release[g] <- struct{}{}
		select {
		case st := <-at[g]:
			stages[g] = append(stages[g], st)
			if st == "exit" {
				exited[g] = true
			}
		case <-time.After(20 * time.Second):
			return append(problems, schedResult{"hang", map[string]interface{}{"goroutine": g1, "step": step + 1}})
		}
		if !mem.intact() {
			problems = append(problems, schedResult{"argument-mutated", map[string]interface{}{"afterStep": step + 1, "goroutine": g1}})
			mem = nil
			break
		}
	}
	// drain goroutines that need more steps than the specification gave them
	for g := 0; g < n; g++ {
		extra := 0
		for !exited[g] {
			release[g] <- struct{}{}
			st := <-at[g]
			stages[g] = append(stages[g], st)
			if st == "exit" {
				exited[g] = true
			}
			extra++
		}
		if extra > 0 {
			problems = append(problems, schedResult{"stage-sequence", map[string]interface{}{"goroutine": g + 1,
				"detail": "the code took more stages than the specification", "seen": stages[g]}})
		}
	}
	for g := 0; g < n; g++ {
		if results[g].Panic != "" {
			problems = append(problems, schedResult{"panic", results[g]})
		} else if !reflect.DeepEqual(results[g], seqRes[g]) {
			problems = append(problems, schedResult{"result-depends-on-schedule", map[string]interface{}{"goroutine": g + 1, "sequential": seqRes[g], "concurrent": results[g]}})
		}
	}
	return problems
}

// raw variants: the slice passed is the shared one (no private copy), mutation is checked by the caller
func obsSatisfiesRaw(e string, allowed []string) (o Obs) {
	o.Fn = "Satisfies"
	defer func() {
		if r := recover(); r != nil {
			o.Panic = fmt.Sprint(r)
		}
	}()
	o2 := obsSatisfiesNoGuard(e, allowed)
	return o2
}

func obsSatisfiesNoGuard(e string, allowed []string) (o Obs) {
	o.Fn = "Satisfies"
	defer func() {
		if r := recover(); r != nil {
			o.Panic = fmt.Sprint(r)
		}
	}()
	sat, err := satisfiesDirect(e, allowed)
	o.Sat = sat
	if err != nil {
		o.Err = true
		o.ErrText = err.Error()
	}
	return
}

func obsValidateRaw(list []string) (o Obs) {
	o.Fn = "ValidateLicenses"
	defer func() {
		if r := recover(); r != nil {
			o.Panic = fmt.Sprint(r)
		}
	}()
	ok, bad := validateDirect(list)
	o.OK = ok
	o.Invalid = append([]string{}, bad...)
	return
}

// ------------------------------------------------------------------ stdout/stderr capture

type outCapture struct {
	oldOut, oldErr *os.File
	saved1, saved2 int
	r, w           *os.File
	done           chan int64
	buf            capBuf
}

// capBuf keeps the first 256 KiB of what was written while the capture was on.
type capBuf struct{ b []byte }

func (c *capBuf) Write(p []byte) (int, error) {
	if room := 256<<10 - len(c.b); room > 0 {
		c.b = append(c.b, p[:min(room, len(p))]...)
	}
	return len(p), nil
}

// The capture works on the file DESCRIPTORS 1 and 2, not only on the os.Stdout / os.Stderr variables: the builtin
// println, the log package's default logger (which keeps the *os.File it saw at start-up) and direct writes would
// pass a capture that only re-assigns the variables.
func startCapture() (*outCapture, error) {
	r, w, err := os.Pipe()
	if err != nil {
		return nil, err
	}
	c := &outCapture{oldOut: os.Stdout, oldErr: os.Stderr, r: r, w: w, done: make(chan int64, 1)}
	if c.saved1, err = syscall.Dup(1); err != nil {
		return nil, err
	}
	if c.saved2, err = syscall.Dup(2); err != nil {
		return nil, err
	}
	if err = syscall.Dup3(int(w.Fd()), 1, 0); err != nil {
		return nil, err
	}
	if err = syscall.Dup3(int(w.Fd()), 2, 0); err != nil {
		return nil, err
	}
	os.Stdout, os.Stderr = w, w
	go func() {
		n, _ := io.Copy(&c.buf, r)
		c.done <- n
	}()
	return c, nil
}

func (c *outCapture) stop() int64 {
	os.Stdout, os.Stderr = c.oldOut, c.oldErr
	syscall.Dup3(c.saved1, 1, 0)
	syscall.Dup3(c.saved2, 2, 0)
	syscall.Close(c.saved1)
	syscall.Close(c.saved2)
	c.w.Close()
	n := <-c.done
	c.r.Close()
	// what was captured is passed on to the real stderr afterwards (the race detector's reports and the runtime's
	// fatal errors are read there by ./check); reports of the race detector are not output of the library
	if len(c.buf.b) > 0 {
		os.Stderr.Write(c.buf.b)
		if bytes.Contains(c.buf.b, []byte("WARNING: DATA RACE")) {
			return 0
		}
	}
	return n
}

// ------------------------------------------------------------------ sub-command

// conc stress|hist : free-running concurrency / call histories.  Output: JSON summary on stdout.
func cmdConc(args []string) int {
	if len(args) < 1 {
		fmt.Fprintln(os.Stderr, "usage: harness conc <stress|hist> ...")
		return 2
	}
	mode := args[0]
	fs := flag.NewFlagSet("conc", flag.ExitOnError)
	seed := fs.Int64("seed", 1, "")
	n := fs.Int("n", 2000, "calls per goroutine (stress) / history length (hist)")
	gor := fs.Int("goroutines", 32, "")
	out := fs.String("out", "", "summary JSON")
	trace := fs.String("trace", "", "ndjson trace of the calls (hist)")
	order := fs.String("order", "all", "hist: all (given+shuffled+reversed in one process) | given | reversed | shuffled (one order in a fresh process)")
	dump := fs.String("dump", "", "hist: write the result of every distinct call (JSON) for comparison across processes")
	_ = fs.Parse(args[1:])
	var summary map[string]interface{}
	switch mode {
	case "stress":
		summary = concStress(*seed, *n, *gor)
	case "hist":
		summary = concHist(*seed, *n, *trace, *order, *dump)
	default:
		return 2
	}
	b, _ := json.Marshal(summary)
	if *out != "" {
		os.WriteFile(*out, b, 0o644)
	} else {
		os.Stdout.Write(b)
	}
	return 0
}

func lowerAll(l []string) []string {
	if l == nil {
		return nil
	}
	out := make([]string, len(l))
	for i, s := range l {
		out[i] = strings.ToLower(s)
	}
	return out
}

type wlCall struct {
	fn string
	e  string
	a  int // index of shared slice
}

// concStress: many goroutines, a seeded mix of calls over a few SHARED slices, no gating (so that the
// race detector of a -race build sees real concurrency).  Results must equal the sequential results.
func concStress(seed int64, n, gor int) map[string]interface{} {
	g := newGen(seed)
	pool := g.relatedPool()
	shared := make([][]string, 6)
	backing := make([][]string, 6)
	pristine := make([][]string, 6)
	for i := range shared {
		l := g.allowedList(pool, 1+g.rng.Intn(5))
		if i >= 3 { // long, unsorted, with repeats
			l = g.allowedList(pool, 12+g.rng.Intn(10))
			l = append(l, l[0], l[3], l[3])
		}
		if i == 5 {
			l = append(l, g.mutate(g.term(pool, true)), g.expr(2, pool, false))
		}
		shared[i], backing[i], pristine[i] = guarded(l)
	}
	calls := make([]wlCall, 200)
	for i := range calls {
		c := wlCall{a: g.rng.Intn(len(shared))}
		switch g.rng.Intn(3) {
		case 0:
			c.fn, c.e = "Satisfies", g.expr(1+g.rng.Intn(6), pool, true)
		case 1:
			c.fn, c.e = "ExtractLicenses", g.expr(1+g.rng.Intn(6), pool, true)
		default:
			c.fn = "ValidateLicenses"
		}
		if g.rng.Intn(8) == 0 {
			c.e = g.mutate(c.e)
		}
		calls[i] = c
	}
	run := func(c wlCall) Obs {
		switch c.fn {
		case "Satisfies":
			return obsSatisfiesNoGuard(c.e, shared[c.a])
		case "ExtractLicenses":
			return obsExtract(c.e)
		}
		return obsValidateRaw(shared[c.a])
	}
	capt, _ := startCapture()
	// The concurrent phase comes FIRST, in a process that has not called the library yet: lazily built
	// package state (an index, a cache) is then initialised under contention.  The sequential reference
	// results are computed afterwards.
	type seen struct {
		k int
		o Obs
	}
	var wg sync.WaitGroup
	var mu sync.Mutex
	all := make([][]seen, gor)
	start := make(chan struct{})
	for w := 0; w < gor; w++ {
		wg.Add(1)
		go func(w int) {
			defer wg.Done()
			rng := rand.New(rand.NewSource(seed*977 + int64(w)))
			<-start
			for i := 0; i < n; i++ {
				k := rng.Intn(len(calls))
				all[w] = append(all[w], seen{k, run(calls[k])})
			}
		}(w)
	}
	close(start)
	wg.Wait()
	seq := make([]Obs, len(calls))
	for i, c := range calls {
		seq[i] = run(c)
	}
	var diffs []map[string]interface{}
	total := 0
	for w := range all {
		for _, x := range all[w] {
			total++
			if !reflect.DeepEqual(x.o, seq[x.k]) {
				mu.Lock()
				if len(diffs) < 20 {
					diffs = append(diffs, map[string]interface{}{"call": calls[x.k].fn, "expr": calls[x.k].e, "list": shared[calls[x.k].a], "sequential": seq[x.k], "concurrent": x.o})
				}
				mu.Unlock()
			}
		}
	}
	outBytes := int64(0)
	if capt != nil {
		outBytes = capt.stop()
	}
	mutated := false
	for i := range backing {
		if !sameStrings(backing[i], pristine[i]) {
			mutated = true
		}
	}
	return map[string]interface{}{"mode": "stress", "calls": total, "goroutines": gor, "diffs": diffs, "mutated": mutated, "outBytes": outBytes, "distinctCalls": len(calls)}
}

// concHist: one goroutine, a history of calls with repeats, then the same calls in a shuffled order:
// every call must return exactly what its first occurrence returned (incl. the order of ExtractLicenses' output).
func swapCase(s string) string {
	b := []byte(s)
	for i, c := range b {
		if c >= 'a' && c <= 'z' {
			b[i] = c - 32
		} else if c >= 'A' && c <= 'Z' {
			b[i] = c + 32
		}
	}
	return string(b)
}

func concHist(seed int64, n int, tracePath, order, dumpPath string) map[string]interface{} {
	g := newGen(seed)
	type hc struct {
		fn string
		e  string
		a  []string
	}
	var distinct []hc
	for i := 0; i < n/4+1; i++ {
		pool := g.relatedPool()
		c := hc{}
		switch g.rng.Intn(3) {
		case 0:
			c = hc{"Satisfies", g.expr(1+g.rng.Intn(6), pool, true), g.allowedList(pool, 1+g.rng.Intn(4))}
		case 1:
			c = hc{"ExtractLicenses", g.expr(1+g.rng.Intn(8), pool, true), nil}
		default:
			c = hc{"ValidateLicenses", "", []string{g.expr(2, pool, true), g.mutate(g.expr(2, pool, true)), g.term(pool, true)}}
		}
		distinct = append(distinct, c)
		// twins that differ from an earlier call only in letter case (operators, Ref names and ids): a
		// result remembered under a case-folded key would leak from one to the other
		switch g.rng.Intn(4) {
		case 0:
			distinct = append(distinct, hc{c.fn, strings.ToLower(c.e), lowerAll(c.a)})
		case 1:
			distinct = append(distinct, hc{c.fn, swapCase(c.e), c.a})
		}
	}
	run := func(c hc) Obs {
		switch c.fn {
		case "Satisfies":
			return obsSatisfies(c.e, c.a)
		case "ExtractLicenses":
			return obsExtract(c.e)
		}
		return obsValidate(c.a)
	}
	capt, _ := startCapture()
	first := map[int]Obs{}
	var diffs []map[string]interface{}
	var events []Event
	mutated := 0
	hist := make([]int, n)
	for i := range hist {
		hist[i] = g.rng.Intn(len(distinct))
	}
	pass := func(order []int, label string) {
		for _, k := range order {
			o := run(distinct[k])
			if o.Mutated {
				mutated++
			}
			if f, ok := first[k]; !ok {
				first[k] = o
				ev := eventOf(o, distinct[k].e, distinct[k].a)
				events = append(events, ev)
			} else if !reflect.DeepEqual(f, o) {
				if len(diffs) < 20 {
					diffs = append(diffs, map[string]interface{}{"pass": label, "fn": distinct[k].fn, "expr": distinct[k].e, "list": distinct[k].a, "first": f, "later": o})
				}
			}
		}
	}
	sh := append([]int{}, hist...)
	g.rng.Shuffle(len(sh), func(i, j int) { sh[i], sh[j] = sh[j], sh[i] })
	rev := make([]int, len(hist))
	for i := range hist {
		rev[i] = hist[len(hist)-1-i]
	}
	switch order {
	case "given":
		pass(hist, "given order")
	case "reversed":
		pass(rev, "reversed order")
	case "shuffled":
		pass(sh, "shuffled order")
	default:
		pass(hist, "given order")
		pass(sh, "shuffled order")
		pass(rev, "reversed order")
	}
	if dumpPath != "" {
		res := map[string]Obs{}
		for k, o := range first {
			res[strconv.Itoa(k)] = o
		}
		calls := make([]map[string]interface{}, len(distinct))
		for i, c := range distinct {
			calls[i] = map[string]interface{}{"fn": c.fn, "e": c.e, "a": c.a}
		}
		b, _ := json.Marshal(map[string]interface{}{"results": res, "calls": calls})
		os.WriteFile(dumpPath, b, 0o644)
	}
	outBytes := int64(0)
	if capt != nil {
		outBytes = capt.stop()
	}
	if tracePath != "" {
		f, err := os.Create(tracePath)
		if err == nil {
			w := bufio.NewWriter(f)
			enc := json.NewEncoder(w)
			enc.SetEscapeHTML(false)
			for i := range events {
				events[i].Seq = i + 1
				if events[i].A == nil {
					events[i].A = []string{}
				}
				enc.Encode(events[i])
			}
			w.Flush()
			f.Close()
		}
	}
	return map[string]interface{}{"mode": "hist", "calls": 3 * n, "distinctCalls": len(distinct), "diffs": diffs, "mutatedCalls": mutated, "outBytes": outBytes}
}
