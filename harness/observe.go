package main

import (
	"fmt"
	"regexp"
	"strconv"
	"sync"

	"github.com/github/go-spdx/v2/spdxexp"
)

// Obs is the projected observation of one call (DESIGN.md 4.3).
type Obs struct {
	Fn      string   `json:"fn"`
	Panic   string   `json:"panic,omitempty"`
	Mutated bool     `json:"mutated,omitempty"` // caller's slice (incl. spare capacity) changed
	Sat     bool     `json:"sat,omitempty"`
	Err     bool     `json:"err"`
	ErrText string   `json:"errText,omitempty"`
	OK      bool     `json:"ok,omitempty"`
	Invalid []string `json:"invalid,omitempty"`
	Out     []string `json:"out,omitempty"`
	OutNil  bool     `json:"outNil,omitempty"`
	Aliased bool     `json:"aliased,omitempty"` // a slice RETURNED by an earlier call changed during this call
}

// Results handed to the caller belong to the caller.  Every returned slice is either scribbled over right away
// (a library that keeps the slice - a memo, a pool - would serve the junk later) or retained with a snapshot and
// re-examined after every later call (a library that recycles the slice would change it under the caller).
type retained struct {
	live []string
	snap []string
}

var (
	retainRing [16]retained
	retainN    int
	retainMu   sync.Mutex
)

func checkRetained() bool {
	retainMu.Lock()
	defer retainMu.Unlock()
	for i := range retainRing {
		r := retainRing[i]
		if r.live != nil && !sameStrings(r.live, r.snap) {
			retainRing[i] = retained{}
			return true
		}
	}
	return false
}

func disposeResult(res []string) {
	if len(res) == 0 {
		return
	}
	retainMu.Lock()
	defer retainMu.Unlock()
	retainN++
	if retainN%2 == 0 {
		for i := range res {
			res[i] = "\x00scribbled-by-caller"
		}
		return
	}
	retainRing[retainN/2%len(retainRing)] = retained{live: res, snap: append([]string{}, res...)}
}

// guarded returns a slice whose backing array has two sentinel cells of spare
// capacity, plus a pristine copy of the whole array for comparison.
func guarded(in []string) (arg []string, backing []string, pristine []string) {
	if in == nil {
		return nil, nil, nil
	}
	backing = make([]string, len(in)+2)
	copy(backing, in)
	backing[len(in)] = "\x00sentinel-1"
	backing[len(in)+1] = "\x00sentinel-2"
	pristine = append([]string(nil), backing...)
	return backing[:len(in):len(backing)], backing, pristine
}

func sameStrings(a, b []string) bool {
	if len(a) != len(b) {
		return false
	}
	for i := range a {
		if a[i] != b[i] {
			return false
		}
	}
	return true
}

func obsSatisfies(e string, allowed []string) (o Obs) {
	o.Fn = "Satisfies"
	arg, backing, pristine := guarded(allowed)
	defer func() {
		if r := recover(); r != nil {
			o.Panic = fmt.Sprint(r)
		}
		o.Mutated = !sameStrings(backing, pristine)
	}()
	defer journal("Satisfies", e, arg)()
	sat, err := spdxexp.Satisfies(e, arg)
	o.Sat = sat
	if err != nil {
		o.Err = true
		o.ErrText = err.Error()
	}
	return
}

// reuseBuf is ONE caller-owned backing array used for many consecutive calls, its contents overwritten in place
// between calls (a caller that recycles its slice): a result remembered by slice identity would be stale.
var reuseBuf = make([]string, 12)

func obsSatisfiesReuse(e string, allowed []string) (o Obs) {
	if len(allowed) == 0 || len(allowed) > len(reuseBuf)-1 {
		return obsSatisfies(e, allowed)
	}
	o.Fn = "Satisfies"
	buf := reuseBuf[:len(allowed)]
	copy(buf, allowed)
	reuseBuf[len(allowed)] = "\x00sentinel"
	defer func() {
		if r := recover(); r != nil {
			o.Panic = fmt.Sprint(r)
		}
		o.Mutated = !sameStrings(buf, allowed) || reuseBuf[len(allowed)] != "\x00sentinel"
	}()
	defer journal("Satisfies", e, buf)()
	sat, err := spdxexp.Satisfies(e, buf)
	o.Sat = sat
	if err != nil {
		o.Err = true
		o.ErrText = err.Error()
	}
	return
}

func obsValidate(list []string) (o Obs) {
	o.Fn = "ValidateLicenses"
	arg, backing, pristine := guarded(list)
	defer func() {
		if r := recover(); r != nil {
			o.Panic = fmt.Sprint(r)
		}
		o.Mutated = !sameStrings(backing, pristine)
	}()
	done := journal("ValidateLicenses", "", arg)
	defer done()
	ok, bad := spdxexp.ValidateLicenses(arg)
	o.OK = ok
	o.Invalid = append([]string{}, bad...)
	o.Aliased = checkRetained()
	disposeResult(bad)
	return
}

func obsExtract(e string) (o Obs) {
	o.Fn = "ExtractLicenses"
	defer func() {
		if r := recover(); r != nil {
			o.Panic = fmt.Sprint(r)
		}
	}()
	done := journal("ExtractLicenses", e, nil)
	defer done()
	out, err := spdxexp.ExtractLicenses(e)
	o.OutNil = out == nil
	o.Out = append([]string{}, out...)
	o.Aliased = checkRetained()
	disposeResult(out)
	if err != nil {
		o.Err = true
		o.ErrText = err.Error()
	}
	return
}

var reOffset = regexp.MustCompile(`offset (-?\d+)`)
var reLexeme = regexp.MustCompile(`'([^']*)'`)

// errOffset extracts "offset N" (-1 if absent) and the quoted lexeme from an error text.
func errOffset(text string) (int, string) {
	off := -1
	if m := reOffset.FindStringSubmatch(text); m != nil {
		off, _ = strconv.Atoi(m[1])
	}
	lex := ""
	if m := reLexeme.FindStringSubmatch(text); m != nil {
		lex = m[1]
	}
	return off, lex
}
