package main

import (
	"encoding/json"
	"flag"
	"fmt"
	"os"
	"strings"
)

// cmdExtremes: arguments at the edges of the input space (C03): nil / empty slices, slices of empty strings,
// very deep nesting, very long chains, very long ids and blank runs, raw byte soup.  Every case goes through
// all three exported functions under recover().  Output: JSON {cases, calls, panics:[...]}.
// (Go aborts the process - unrecoverably - when a goroutine stack exceeds 1 GB; nesting is therefore
// exercised up to the depth given by -depth, and the caller runs this in a subprocess.)
func cmdExtremes(args []string) int {
	fs := flag.NewFlagSet("extremes", flag.ExitOnError)
	depth := fs.Int("depth", 10000, "maximum nesting depth")
	terms := fs.Int("terms", 2000, "maximum number of terms in a chain")
	long := fs.Int("long", 100000, "maximum length of a single id / blank run")
	_ = fs.Parse(args)

	type kase struct {
		name string
		e    string
		l    []string
		nilL bool
	}
	var cases []kase
	add := func(name, e string, l []string) { cases = append(cases, kase{name: name, e: e, l: l}) }
	cases = append(cases, kase{name: "nil-slice", e: "MIT", nilL: true})
	add("empty-slice", "MIT", []string{})
	add("slice-of-empty-strings", "MIT", []string{"", "", ""})
	add("empty-expression", "", []string{"MIT"})
	add("blank-expression", "     ", []string{"MIT"})
	for _, d := range []int{1, 10, 100, 1000, *depth} {
		add(fmt.Sprintf("nest-%d", d), strings.Repeat("(", d)+"MIT"+strings.Repeat(")", d), []string{"MIT"})
		add(fmt.Sprintf("nest-open-only-%d", d), strings.Repeat("(", d), []string{"MIT"})
		add(fmt.Sprintf("nest-unbalanced-%d", d), strings.Repeat("(", d)+"MIT"+strings.Repeat(")", d-1), []string{"MIT"})
		add(fmt.Sprintf("nest-close-only-%d", d), strings.Repeat(")", d), []string{"MIT"})
		add(fmt.Sprintf("plus-run-%d", d), "MIT"+strings.Repeat("+", d), []string{"MIT"})
		add(fmt.Sprintf("colon-run-%d", d), "DocumentRef-a"+strings.Repeat(":", d)+"LicenseRef-b", []string{"MIT"})
	}
	for _, n := range []int{10, 100, *terms} {
		var parts []string
		for k := 0; k < n; k++ {
			parts = append(parts, fmt.Sprintf("LicenseRef-%d", k))
		}
		add(fmt.Sprintf("and-chain-%d", n), strings.Join(parts, " AND "), parts[:1])
		add(fmt.Sprintf("or-chain-%d", n), strings.Join(parts, " OR "), parts[:1])
		add(fmt.Sprintf("dangling-and-chain-%d", n), strings.Join(parts, " AND ")+" AND", parts[:1])
		add(fmt.Sprintf("with-chain-%d", n), "MIT"+strings.Repeat(" WITH Bison-exception-2.2", n), []string{"MIT"})
		add(fmt.Sprintf("long-allowed-%d", n), "LicenseRef-0", parts)
	}
	for _, n := range []int{100, 10000, *long} {
		add(fmt.Sprintf("long-unknown-id-%d", n), strings.Repeat("x", n), []string{"MIT"})
		add(fmt.Sprintf("long-ref-%d", n), "LicenseRef-"+strings.Repeat("a", n), []string{"MIT"})
		add(fmt.Sprintf("long-blank-run-%d", n), "MIT"+strings.Repeat(" ", n)+"AND ISC", []string{"MIT", "ISC"})
		add(fmt.Sprintf("long-or-later-run-%d", n/10), "MIT"+strings.Repeat("-or-later", n/10), []string{"MIT"})
		add(fmt.Sprintf("byte-soup-%d", n), string(soup(n)), []string{"MIT"})
	}
	type pan struct {
		Case string `json:"case"`
		Fn   string `json:"fn"`
		Msg  string `json:"panic"`
		Len  int    `json:"len"`
	}
	var panics []pan
	calls := 0
	for _, c := range cases {
		l := c.l
		if c.nilL {
			l = nil
		}
		for _, o := range []Obs{obsSatisfies(c.e, l), obsExtract(c.e), obsValidate(append([]string{c.e}, l...)), obsValidate(l), obsSatisfies("MIT", append([]string{c.e}, l...))} {
			calls++
			if o.Panic != "" {
				panics = append(panics, pan{c.name, o.Fn, strings.SplitN(o.Panic, "\n", 2)[0], len(c.e)})
			}
		}
	}
	b, _ := json.Marshal(map[string]interface{}{"cases": len(cases), "calls": calls, "panics": panics})
	os.Stdout.Write(b)
	return 0
}

// soup: a deterministic mix of every byte value, biased towards the scanner's own alphabet
func soup(n int) []byte {
	alpha := []byte("()+: -.MITandorWITHLicenseRef-DocumentRef-or-later-only")
	b := make([]byte, n)
	x := uint32(2463534242)
	for i := range b {
		x ^= x << 13
		x ^= x >> 17
		x ^= x << 5
		if x%3 == 0 {
			b[i] = byte(x >> 8)
		} else {
			b[i] = alpha[int(x>>8)%len(alpha)]
		}
	}
	return b
}

// cmdLongOffsets: expressions of several KB with unlisted -or-later forms far apart and an offender at the end, whose
// position is known BY CONSTRUCTION (everything before it is lexically clean text the driver wrote itself): the error
// must cite exactly that offset, and for an unknown id that lexeme.  (The same shape is trace-validated by TLC at
// small sizes; for 8 KB strings the model's character-level scan is too slow to be used per event.)
func cmdLongOffsets(args []string) int {
	fs := flag.NewFlagSet("longoffsets", flag.ExitOnError)
	seed := fs.Int64("seed", 1, "")
	n := fs.Int("n", 60, "")
	_ = fs.Parse(args)
	g := newGen(*seed)
	type bad struct {
		Fn     string `json:"fn"`
		Len    int    `json:"len"`
		Want   int    `json:"wantOffset"`
		Lex    string `json:"wantLexeme"`
		Got    int    `json:"gotOffset"`
		GotLex string `json:"gotLexeme"`
		Tail   string `json:"tail"`
		Panic  bool   `json:"panic"`
	}
	var bads []bad
	for i := 0; i < *n; i++ {
		ev, at, lex := g.longOffset()
		ok := !ev.Panic && ev.Err && ev.Off == at && (lex == "" || ev.Lex == lex)
		if !ok {
			t := ev.RawE
			if len(t) > 80 {
				t = t[len(t)-80:]
			}
			bads = append(bads, bad{ev.Fn, len(ev.RawE), at, lex, ev.Off, ev.Lex, abstractOther(t), ev.Panic})
		}
	}
	b, _ := json.Marshal(map[string]interface{}{"cases": *n, "bad": bads})
	os.Stdout.Write(b)
	return 0
}
