package main

import (
	"math/rand"
	"strings"
	"sync"
	"sync/atomic"
)

var tokClasses = []string{"L", "E", "LR", "DR", ":", "(", ")", "AND", "OR", "WITH", "+"}

func isWordClass(c string) bool {
	switch c {
	case "L", "E", "LR", "DR", "AND", "OR", "WITH":
		return true
	}
	return false
}

// renderClasses mirrors Render.tla's RenderToks (the model checks, state by state, that
// scanning that rendering gives back the token sequence).
func renderClasses(seq []string, lex map[string]string, tight bool) string {
	var b strings.Builder
	for i, c := range seq {
		if i > 0 && c != "+" {
			if !tight || (isWordClass(seq[i-1]) && isWordClass(c)) {
				b.WriteByte(' ')
			}
		}
		if t, ok := lex[c]; ok {
			b.WriteString(t)
		} else {
			b.WriteString(c)
		}
	}
	return b.String()
}

// plainLicenses: ids the scanner reads as one L token equal to themselves, whatever follows:
// active, no -only/-or-later suffix, and no listed "<id>-or-later" that a following '+' would fold into.
func plainLicenses(t Tables) []string {
	low := map[string]bool{}
	for _, id := range t.Active {
		low[strings.ToLower(id)] = true
	}
	for _, id := range t.Exceptions {
		low[strings.ToLower(id)] = true
	}
	var out []string
	for _, id := range t.Active {
		if strings.HasSuffix(id, "-only") || strings.HasSuffix(id, "-or-later") || low[strings.ToLower(id)+"-or-later"] {
			continue
		}
		out = append(out, id)
	}
	return out
}

// replayTokenSpace enumerates every class sequence of length <= maxlen, renders it in loose
// and tight spacing with the model's lexemes and with seed-chosen other lexemes of the same
// classes, and requires all three entry points to agree with the model's accepted set.
func (r *replayer) replayTokenSpace(t Tables, seed int64, workers int) int64 {
	cfg := r.tokCfg
	plain := plainLicenses(t)
	n := len(tokClasses)
	var total int64
	var calls int64
	var nontriv int64
	var wg sync.WaitGroup
	jobs := make(chan []string, 1024)
	for w := 0; w < workers; w++ {
		wg.Add(1)
		go func(w int) {
			defer wg.Done()
			rng := rand.New(rand.NewSource(seed*7919 + int64(w)))
			for seq := range jobs {
				key := strings.Join(seq, " ")
				exp := r.accepted[key]
				lexA := map[string]string{"L": cfg.LexL, "E": cfg.LexE, "LR": "LicenseRef-" + cfg.LexLR, "DR": "DocumentRef-" + cfg.LexDR}
				lexB := map[string]string{"L": plain[rng.Intn(len(plain))], "E": t.Exceptions[rng.Intn(len(t.Exceptions))],
					"LR": "LicenseRef-" + refNames[rng.Intn(len(refNames))], "DR": "DocumentRef-" + refNames[rng.Intn(len(refNames))]}
				variants := []map[string]string{lexA, lexB}
				for vi, lex := range variants {
					for ti, tight := range []bool{false, true} {
						if !r.allVariants && vi != ti {
							continue // quick tier: model lexemes loose, seed-chosen lexemes tight
						}
						text := renderClasses(seq, lex, tight)
						rec := &Rec{K: "str", S: text, Valid: exp, Comp: exp && (containsClass(seq, "AND") || containsClass(seq, "OR"))}
						c, _ := r.checkRec(rec, rng)
						atomic.AddInt64(&calls, int64(c))
					}
				}
				if exp {
					atomic.AddInt64(&nontriv, 1)
				}
			}
		}(w)
	}
	idx := make([]int, 0, cfg.MaxLen)
	var rec func(depth int)
	rec = func(depth int) {
		if depth > 0 {
			seq := make([]string, depth)
			for i, k := range idx {
				seq[i] = tokClasses[k]
			}
			jobs <- seq
			total++
		}
		if depth == cfg.MaxLen {
			return
		}
		for k := 0; k < n; k++ {
			idx = append(idx, k)
			rec(depth + 1)
			idx = idx[:len(idx)-1]
		}
	}
	rec(0)
	close(jobs)
	wg.Wait()
	r.calls += calls
	r.nontrivial += nontriv
	return total
}

// names a reference may carry: arbitrary idstrings, including the operator words, listed ids and the Ref prefixes themselves
var refNames = []string{"x", "1.0", "A-b", "MIT", "y", "2", "spdx-tool-1.2", "AND", "OR", "WITH", "and", "with", "LicenseRef-a", "DocumentRef-d", "GPL-2.0-or-later", "only", "-", ".", "bsd.or.mit", "a.and", "x.with.y", "or", "with"}

func containsClass(seq []string, c string) bool {
	for _, x := range seq {
		if x == c {
			return true
		}
	}
	return false
}
