package main

import (
	"encoding/json"
	"flag"
	"fmt"
	"os"
	"runtime"
	"strings"
	"time"

	"github.com/github/go-spdx/v2/spdxexp"
)

type measureCall struct {
	Fn string   `json:"fn"`
	E  string   `json:"e"`
	A  []string `json:"a"`
}

// cmdMeasure runs ONE call and reports bytes allocated (runtime.MemStats.TotalAlloc delta, which is
// deterministic for a deterministic single-goroutine computation) and wall time.  A watchdog aborts the
// process when the allocation or time limit is exceeded (exit 3) - the caller runs this in a subprocess.
func cmdMeasure(args []string) int {
	fs := flag.NewFlagSet("measure", flag.ExitOnError)
	in := fs.String("in", "", "JSON file {fn, e, a}")
	maxAlloc := fs.Uint64("max-alloc", 1<<30, "abort above this many allocated bytes")
	maxTime := fs.Duration("max-time", 10*time.Second, "abort after this long")
	history := fs.Int("history", 0, "number of DISTINCT unrelated calls made before the measured one (cost must not depend on it)")
	_ = fs.Parse(args)
	b, err := os.ReadFile(*in)
	if err != nil {
		fmt.Fprintln(os.Stderr, err)
		return 2
	}
	var c measureCall
	if err := json.Unmarshal(b, &c); err != nil {
		fmt.Fprintln(os.Stderr, err)
		return 2
	}
	// warm up the package (table construction, regexp caches) so that the measured call is steady-state
	spdxexp.ValidateLicenses([]string{"MIT"})
	for i := 0; i < *history; i++ {
		junk := fmt.Sprintf("Junk-%d.%d", i, i*7)
		switch i % 4 {
		case 0:
			spdxexp.ValidateLicenses([]string{junk})
		case 1:
			spdxexp.Satisfies("MIT", []string{junk})
		case 2:
			spdxexp.ExtractLicenses("LicenseRef-" + junk + " OR MIT")
		default:
			spdxexp.Satisfies("mIt AND LicenseRef-"+junk, []string{"MIT", "LicenseRef-" + junk})
		}
	}
	runtime.GC()
	var m0 runtime.MemStats
	runtime.ReadMemStats(&m0)
	t0 := time.Now()
	report := func(aborted string) {
		var m1 runtime.MemStats
		runtime.ReadMemStats(&m1)
		out, _ := json.Marshal(map[string]interface{}{"alloc": m1.TotalAlloc - m0.TotalAlloc, "ns": time.Since(t0).Nanoseconds(), "aborted": aborted})
		os.Stdout.Write(out)
		os.Stdout.Write([]byte("\n"))
	}
	go func() {
		for {
			time.Sleep(5 * time.Millisecond)
			var m runtime.MemStats
			runtime.ReadMemStats(&m)
			if m.TotalAlloc-m0.TotalAlloc > *maxAlloc {
				report("alloc-limit")
				os.Exit(3)
			}
			if time.Since(t0) > *maxTime {
				report("time-limit")
				os.Exit(3)
			}
		}
	}()
	panicked := ""
	func() {
		defer func() {
			if r := recover(); r != nil {
				panicked = fmt.Sprint(r)
			}
		}()
		switch c.Fn {
		case "Satisfies":
			spdxexp.Satisfies(c.E, c.A)
		case "ExtractLicenses":
			spdxexp.ExtractLicenses(c.E)
		default:
			spdxexp.ValidateLicenses(append([]string{c.E}, c.A...))
		}
	}()
	if panicked != "" {
		report("panic: " + strings.SplitN(panicked, "\n", 2)[0])
		return 4
	}
	report("")
	return 0
}
