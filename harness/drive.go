package main

import (
	"bufio"
	"encoding/hex"
	"encoding/json"
	"strconv"
	"flag"
	"fmt"
	"math/rand"
	"os"
	"strings"
)

// Event is one completed call of an exported function, recorded at its return
// (the linearization point of a sequential library).  Strings are logged through
// abstractOther: every byte outside the scanner's alphabet becomes '#', the
// model's single OTHER symbol (offsets are preserved: one byte, one character).
type Event struct {
	G      int      `json:"g"`
	Seq    int      `json:"seq"`
	Fn     string   `json:"fn"`
	E      string   `json:"e"`
	A      []string `json:"a"`
	Sat    bool     `json:"sat"`
	Err    bool     `json:"err"`
	Off    int      `json:"off"`
	Lex    string   `json:"lex"`
	OK     bool     `json:"ok"`
	Bad    []string `json:"bad"`
	Out    []string `json:"out"`
	OutNil bool     `json:"outnil"`
	Panic  bool     `json:"panic"`
	Mut    bool     `json:"mut"`
	Stages []string `json:"stages"`
	Msg    string   `json:"msg"` // the error text (foreign bytes abstracted)
	Alias  bool     `json:"alias"`    // a slice returned by an earlier call was changed by the library
	Unstable int    `json:"unstable"` // how many of the repetitions of this identical call answered differently (repeat flavour)
	Reps   int      `json:"reps"`
	RawHex []string `json:"rawhex,omitempty"` // the exact argument bytes (expression, then list), when abstraction changed them
	RawE   string   `json:"-"`
	RawA   []string `json:"-"`
}

// printable keeps printable ASCII and maps every other byte to '#'
func printable(s string) string {
	b := []byte(s)
	for i, c := range b {
		if c < 0x20 || c > 0x7e {
			b[i] = '#'
		}
	}
	return string(b)
}

func absAll(l []string) []string {
	out := make([]string, len(l))
	for i, s := range l {
		out[i] = abstractOther(s)
	}
	return out
}

// stageSink collects the stage hooks fired by the call being recorded (single-goroutine drivers only)
var stageSink []string

func recordStages() {
	if hooksAvailable {
		setHook(func(fn, stage string) { stageSink = append(stageSink, stage) })
	}
}

func eventOf(o Obs, e string, a []string) Event {
	st := append([]string{}, stageSink...)
	stageSink = stageSink[:0]
	ev := Event{Fn: o.Fn, E: abstractOther(e), A: absAll(a), Sat: o.Sat, Err: o.Err, OK: o.OK,
		Bad: absAll(o.Invalid), Out: absAll(o.Out), OutNil: o.OutNil, Panic: o.Panic != "", Mut: o.Mutated,
		Off: -1, Stages: st, RawE: e, RawA: a, Alias: o.Aliased}
	if o.Err {
		ev.Off, ev.Lex = errOffset(o.ErrText)
		ev.Msg = printable(o.ErrText)
	}
	changed := ev.E != e
	for i := range a {
		changed = changed || ev.A[i] != a[i]
	}
	if changed {
		ev.RawHex = append(ev.RawHex, hex.EncodeToString([]byte(e)))
		for _, x := range a {
			ev.RawHex = append(ev.RawHex, hex.EncodeToString([]byte(x)))
		}
	}
	return ev
}

// ---------------------------------------------------------------- generators

type gen struct {
	largeN int // calls of the large flavour made so far
	terms []string // the single-term texts generated for the expression being built (large inputs)
	rng *rand.Rand
	t   Tables
	fam [][]string // flattened families (ids in step order)
}

func newGen(seed int64) *gen {
	g := &gen{rng: rand.New(rand.NewSource(seed)), t: loadTables()}
	for _, f := range g.t.Ranges {
		var ids []string
		for _, step := range f {
			ids = append(ids, step...)
		}
		g.fam = append(g.fam, ids)
	}
	return g
}

func (g *gen) pick(l []string) string { return l[g.rng.Intn(len(l))] }

func (g *gen) caseVariant(s string) string {
	switch g.rng.Intn(6) {
	case 0:
		return strings.ToLower(s)
	case 1:
		return strings.ToUpper(s)
	case 2:
		b := []byte(s)
		for i := range b {
			if g.rng.Intn(2) == 0 {
				b[i] = strings.ToUpper(string(b[i]))[0]
			} else {
				b[i] = strings.ToLower(string(b[i]))[0]
			}
		}
		return string(b)
	}
	return s
}

// licenseID picks an id; with probability from a version family so that '+' matters.
func (g *gen) licenseID(pool []string) string {
	if len(pool) > 0 && g.rng.Intn(3) > 0 {
		return g.pick(pool)
	}
	switch g.rng.Intn(4) {
	case 0:
		return g.pick(g.t.Deprecated)
	case 1:
		return g.pick(g.pick2(g.fam))
	}
	return g.pick(g.t.Active)
}
func (g *gen) pick2(l [][]string) []string { return l[g.rng.Intn(len(l))] }

// term renders one single-term expression.  pool biases towards related ids.
func (g *gen) term(pool []string, refs bool) string {
	t := g.term0(pool, refs)
	g.terms = append(g.terms, t)
	return t
}

func (g *gen) term0(pool []string, refs bool) string {
	if refs && g.rng.Intn(6) == 0 {
		names := []string{"a", "b", "x-1", "A", "MIT", "1.0", "AND", "OR", "WITH", "a", "b", "bsd.or.mit", "a.and", "x.with.y", "or", "and.b"}
		s := "LicenseRef-" + g.pick(names)
		if g.rng.Intn(3) == 0 {
			s = "DocumentRef-" + g.pick(names) + ":" + s
		}
		return s
	}
	id := g.licenseID(pool)
	// "+" deprecated ids are not scanner lexemes
	id = strings.TrimSuffix(id, "+")
	s := id
	if g.rng.Intn(3) == 0 {
		s = g.caseVariant(s)
	}
	switch g.rng.Intn(8) {
	case 0:
		s += "+"
	case 1:
		if !strings.HasSuffix(id, "-only") && !strings.HasSuffix(id, "-or-later") && inList(g.t.Active, id) {
			s += "-only"
		}
	case 2:
		if !strings.HasSuffix(id, "-only") && !strings.HasSuffix(id, "-or-later") && inList(g.t.Active, id) {
			s += "-or-later"
		}
	}
	if g.rng.Intn(12) == 0 { // the suffixes (and a listed id ending in one) in another letter case
		for _, sf := range []string{"-only", "-or-later"} {
			if strings.HasSuffix(s, sf) {
				s = strings.TrimSuffix(s, sf) + g.pick([]string{strings.ToUpper(sf), "-Only", "-Or-Later", "-onlY", "-or-lateR", sf + sf})
				break
			}
		}
	}
	if g.rng.Intn(7) == 0 {
		exc := g.pick(g.t.Exceptions)
		if g.rng.Intn(3) == 0 {
			exc = g.caseVariant(exc)
		}
		s += " WITH " + exc
	}
	return s
}

func inList(l []string, s string) bool {
	for _, x := range l {
		if x == s {
			return true
		}
	}
	return false
}

// expr renders a random tree with n leaves; parentheses are inserted where
// needed for the generated grouping and sometimes redundantly.
func (g *gen) expr(n int, pool []string, refs bool) string {
	s, _ := g.exprP(n, pool, refs)
	return s
}

// returns text and top operator ("" leaf, "AND", "OR")
func (g *gen) exprP(n int, pool []string, refs bool) (string, string) {
	if n <= 1 {
		t := g.term(pool, refs)
		if g.rng.Intn(10) == 0 {
			return g.paren(t), ""
		}
		return t, ""
	}
	k := 1 + g.rng.Intn(n-1)
	op := "AND"
	if g.rng.Intn(2) == 0 {
		op = "OR"
	}
	l, lop := g.exprP(k, pool, refs)
	r, rop := g.exprP(n-k, pool, refs)
	// precedence: AND binds tighter; the parser is right-recursive, semantics associative
	if op == "AND" {
		if lop == "OR" {
			l = g.paren(l)
		}
		if rop == "OR" {
			r = g.paren(r)
		}
	}
	if g.rng.Intn(8) == 0 {
		l = g.paren(l)
	}
	if g.rng.Intn(8) == 0 {
		r = g.paren(r)
	}
	sp := " "
	if g.rng.Intn(10) == 0 {
		sp = "  "
	}
	return l + sp + op + sp + r, op
}

func (g *gen) paren(s string) string {
	if g.rng.Intn(2) == 0 {
		return "(" + s + ")"
	}
	return "( " + s + " )"
}

// relatedPool: a handful of ids, mostly from one or two families, so matches happen
func (g *gen) relatedPool() []string {
	var pool []string
	for i := 0; i < 1+g.rng.Intn(2); i++ {
		pool = append(pool, g.pick2(g.fam)...)
	}
	for i := 0; i < 2; i++ {
		pool = append(pool, g.pick(g.t.Active))
	}
	return pool
}

func (g *gen) allowedList(pool []string, n int) []string {
	var l []string
	for i := 0; i < n; i++ {
		t := g.term(pool, true)
		switch g.rng.Intn(10) {
		case 0:
			t = " " + t + " "
		case 1:
			t = "(" + t + ")"
		}
		l = append(l, t)
	}
	return l
}

var junkTokens = []string{"(", ")", "AND", "OR", "WITH", "+", " +", ":", "and", "or", "with", "FOO", "LicenseRef-", "DocumentRef-",
	"DocumentRef-d", "DocumentRef-d:", "LicenseRef-z", "\xff", "\t", "é", "MIT", "Apache-2.0-or-later", "GPL-2.0+", "x_y", "", " "}

// mutate makes a (probably) invalid string out of a valid one.
func (g *gen) mutate(s string) string {
	toks := strings.Fields(s)
	switch g.rng.Intn(8) {
	case 0: // truncate at a byte
		if len(s) > 0 {
			return s[:g.rng.Intn(len(s))]
		}
	case 1: // delete a token
		if len(toks) > 1 {
			i := g.rng.Intn(len(toks))
			toks = append(toks[:i:i], toks[i+1:]...)
			return strings.Join(toks, " ")
		}
	case 2: // insert a token
		i := g.rng.Intn(len(toks) + 1)
		t := append(append(append([]string{}, toks[:i]...), g.pick(junkTokens)), toks[i:]...)
		return strings.Join(t, " ")
	case 3: // replace a byte
		if len(s) > 0 {
			b := []byte(s)
			b[g.rng.Intn(len(b))] = foreignBytes[g.rng.Intn(len(foreignBytes))]
			return string(b)
		}
	case 4: // append
		return s + g.pick([]string{" ", "", "  "}) + g.pick(junkTokens)
	case 5: // prepend
		return g.pick(junkTokens) + g.pick([]string{" ", ""}) + s
	case 6, 7: // one ASCII character replaced by a Unicode look-alike, blank, digit or case partner
		if t, ok := g.unicodeTwin(s); ok {
			return t
		}
	}
	return s + " " + g.pick(junkTokens)
}

// unicodeTwins: what a Unicode-aware helper (EqualFold, ToUpper, IsLetter, IsDigit, IsSpace, Fields, TrimSpace)
// would take for the ASCII character, and the hand-written byte-level scanner does not.
func unicodeTwins(c byte) []string {
	var out []string
	switch {
	case c == 's' || c == 'S':
		out = append(out, "\u017f", "\u1e9e")
	case c == 'k' || c == 'K':
		out = append(out, "\u212a")
	case c == 'i':
		out = append(out, "\u0131", "\u0130")
	case c == 'I':
		out = append(out, "\u0130", "\u0131")
	case c == ' ':
		out = append(out, "\u00a0", "\u2003", "\u3000", "\u0085", "\u2028", "\t\u00a0", "\u200b", "\ufeff")
	case c == '-':
		out = append(out, "\u2010", "\u2212", "\uff0d", "\u00ad", "-\u200b")
	case c == '+':
		out = append(out, "\uff0b")
	case c == '(':
		out = append(out, "\uff08")
	case c == ')':
		out = append(out, "\uff09")
	case c == ':':
		out = append(out, "\uff1a")
	case c == '.':
		out = append(out, "\uff0e", "\u3002")
	}
	switch {
	case c >= '0' && c <= '9':
		d := rune(c - '0')
		out = append(out, string(rune(0xff10)+d), string(rune(0x0660)+d), string(rune(0x1d7ce)+d))
	case c >= 'A' && c <= 'Z':
		d := rune(c - 'A')
		out = append(out, string(rune(0xff21)+d), string(rune(0x1d400)+d), string(rune(c))+"\u0301")
	case c >= 'a' && c <= 'z':
		d := rune(c - 'a')
		out = append(out, string(rune(0xff41)+d), string(rune(0x1d41a)+d), string(rune(c))+"\u0301")
	}
	return out
}

func (g *gen) unicodeTwin(s string) (string, bool) {
	if len(s) == 0 {
		return s, false
	}
	for try := 0; try < 8; try++ {
		i := g.rng.Intn(len(s))
		tw := unicodeTwins(s[i])
		if len(tw) == 0 {
			continue
		}
		// the case partners are the interesting ones: prefer them when the character has one
		t := tw[0]
		if g.rng.Intn(3) > 0 {
			t = tw[g.rng.Intn(len(tw))]
		}
		return s[:i] + t + s[i+1:], true
	}
	return s, false
}

// one random call
func (g *gen) call(flavor string, maxLeaves int) Event {
	pool := g.relatedPool()
	n := 1 + g.rng.Intn(maxLeaves)
	e := g.expr(n, pool, true)
	f := flavor
	if f == "mixed" {
		f = g.pick([]string{"sat", "sat", "sat", "invalid", "lists", "extract", "extract"})
	}
	if (f == "invalid" || f == "lists" || f == "case" || f == "extract" || f == "single") && g.rng.Intn(10) == 0 {
		evs := g.unicodeEvents(1)
		return evs[g.rng.Intn(len(evs))]
	}
	switch f {
	case "large":
		return g.largeCall()
	case "session":
		panic("session flavour is driven by sessionEvents")
	case "case":
		// case-mutated listed ids in expressions and allowed lists (C09)
		n := 1 + g.rng.Intn(3)
		e := g.caseMutate(g.expr(n, pool, false))
		switch g.rng.Intn(3) {
		case 0:
			return eventOf(obsExtract(e), e, nil)
		case 1:
			l := []string{e}
			return eventOf(obsValidate(l), "", l)
		}
		a := g.allowedList(pool, 1+g.rng.Intn(3))
		for i := range a {
			a[i] = g.caseMutate(a[i])
		}
		return eventOf(obsSatisfies(e, a), e, a)
	case "spell":
		// one id in two equivalent spellings against the same related entry (C08); both calls are recorded
		return g.spellCall(pool)
	case "single":
		// one term against one allowed entry, both drawn from the same few families
		t1, t2 := g.term(pool, true), g.term(pool, true)
		if g.rng.Intn(6) == 0 {
			t2 = t1
		}
		return eventOf(obsSatisfies(t1, []string{t2}), t1, []string{t2})
	case "sat":
		a := g.allowedList(pool, 1+g.rng.Intn(5))
		if g.rng.Intn(12) == 0 {
			a = append(a, g.mutate(g.term(pool, true)))
		}
		if g.rng.Intn(15) == 0 {
			a = append(a, g.expr(2, pool, false))
		}
		if g.rng.Intn(40) == 0 {
			a = []string{}
		}
		return eventOf(obsSatisfies(e, a), e, a)
	case "invalid":
		m := g.mutate(e)
		switch g.rng.Intn(3) {
		case 0:
			return eventOf(obsExtract(m), m, nil)
		case 1:
			a := g.allowedList(pool, 1+g.rng.Intn(3))
			return eventOf(obsSatisfies(m, a), m, a)
		}
		l := []string{m}
		return eventOf(obsValidate(l), "", l)
	case "lists":
		var l []string
		for i := 0; i < g.rng.Intn(6); i++ {
			x := g.expr(1+g.rng.Intn(3), pool, true)
			if g.rng.Intn(2) == 0 {
				x = g.mutate(x)
			}
			l = append(l, x)
			switch g.rng.Intn(8) {
			case 0:
				l = append(l, x) // exact repeat
			case 1:
				l = append(l, strings.ToLower(x)) // equal up to case, possibly different validity (operators are case-sensitive)
			case 2:
				l = append(l, strings.ToUpper(x))
			}
		}
		return eventOf(obsValidate(l), "", l)
	default: // extract
		return eventOf(obsExtract(e), e, nil)
	}
}

// caseMutate changes the letter case of identifiers only (operators, the WITH keyword, Ref prefixes
// and the -only / -or-later suffixes added to other ids stay as they are).
func (g *gen) caseMutate(s string) string {
	words := strings.Split(s, " ")
	for i, w := range words {
		core := strings.Trim(w, "()+")
		if core == "" || core == "AND" || core == "OR" || core == "WITH" || strings.Contains(core, "Ref-") {
			continue
		}
		suffix := ""
		if !inListFold(g.t.Active, core) && !inListFold(g.t.Deprecated, core) && !inListFold(g.t.Exceptions, core) {
			// carries an added suffix: the suffix is matched exactly (outside C09's claim), the listed id in front of it is not
			for _, sf := range []string{"-only", "-or-later"} {
				if b := strings.TrimSuffix(core, sf); b != core && (inListFold(g.t.Active, b) || inListFold(g.t.Deprecated, b)) {
					core, suffix = b, sf
				}
			}
			if suffix == "" {
				continue
			}
		}
		var m string
		switch g.rng.Intn(10) {
		case 0, 1, 2:
			m = strings.ToLower(core)
		case 3, 4, 5:
			m = strings.ToUpper(core)
		case 6: // a Unicode case partner (long s, Kelvin sign, dotless i ...) is NOT a case variant of an ASCII letter
			var ok bool
			if m, ok = g.foldPartner(core); !ok {
				m = g.caseVariant(core)
			}
		default:
			m = g.caseVariant(core)
		}
		words[i] = strings.Replace(w, core+suffix, m+suffix, 1)
	}
	return strings.Join(words, " ")
}

// foldPartner replaces one s / k / i (either case) by the non-ASCII rune that Unicode case mapping or simple
// folding identifies with it.
func (g *gen) foldPartner(s string) (string, bool) {
	var at []int
	for i := 0; i < len(s); i++ {
		switch s[i] {
		case 's', 'S', 'k', 'K', 'i', 'I':
			at = append(at, i)
		}
	}
	if len(at) == 0 {
		return s, false
	}
	i := at[g.rng.Intn(len(at))]
	tw := unicodeTwins(s[i])
	return s[:i] + tw[g.rng.Intn(2)%len(tw)] + s[i+1:], true
}

func inListFold(l []string, s string) bool {
	for _, x := range l {
		if strings.EqualFold(x, s) {
			return true
		}
	}
	return false
}

// spellCall: Satisfies with a term written X / X-only / X+ / X-or-later, on either side.
func (g *gen) spellCall(pool []string) Event {
	var ids []string
	for _, id := range pool {
		if inList(g.t.Active, id) && !strings.HasSuffix(id, "-only") && !strings.HasSuffix(id, "-or-later") {
			ids = append(ids, id)
		}
	}
	if len(ids) == 0 {
		ids = []string{g.t.Active[0]}
	}
	x := g.pick(ids)
	s := x + g.pick([]string{"", "-only", "+", "-or-later"})
	o := g.term(pool, false)
	exprs := []string{s, "(" + s + ")", o + " OR " + s, "(" + s + " AND " + o + ")"}
	e := g.pick(exprs)
	if g.rng.Intn(2) == 0 {
		l := []string{o, g.pick(g.t.Active)} // (built once: the recorded list must be the list that was passed)
		return eventOf(obsSatisfies(e, l), e, l)
	}
	a := []string{s}
	return eventOf(obsSatisfies(o, a), o, a)
}

// ------------------------------------------------------------------ large inputs
//
// Inputs beyond the exhaustively explored sizes: long AND / OR chains, deep and redundant nesting, wide
// ORs of ANDs, left-nested groups, many distinct terms per AND group, long allowed lists with repeats
// and re-spellings, long LicenseRef names, long blank runs.  (The number of OR groups that are ANDed
// together stays small: their product is the known exponential expansion, finding D8.)

func (g *gen) chain(op string, n int, pool []string) string {
	parts := make([]string, n)
	for i := range parts {
		parts[i] = g.term(pool, true)
	}
	return strings.Join(parts, " "+op+" ")
}

// altCount: the number of alternatives of the OR-of-ANDs reading of a generated text (sum over OR operands, product over AND
// operands), saturating at 1<<30.  Used only to CHOOSE inputs: the library expands every expression to that many
// alternatives before it looks at it (known finding D8, listed under C14), so a random 60-leaf tree can take minutes or
// gigabytes; the large-input stage keeps to expansions of at most maxLargeAlternatives and leaves the blow-up to C14.
const maxLargeAlternatives = 4096

func altCount(text string) int {
	toks := strings.Fields(strings.NewReplacer("(", " ( ", ")", " ) ").Replace(text))
	pos := 0
	sat := func(x int) int {
		if x > 1<<30 {
			return 1 << 30
		}
		return x
	}
	var orExpr func() int
	atom := func() int {
		if pos < len(toks) && toks[pos] == "(" {
			pos++
			v := orExpr()
			if pos < len(toks) && toks[pos] == ")" {
				pos++
			}
			return v
		}
		for pos < len(toks) && toks[pos] != "AND" && toks[pos] != "OR" && toks[pos] != ")" && toks[pos] != "(" {
			pos++ // a term (id, +, WITH exception, reference)
		}
		return 1
	}
	andExpr := func() int {
		v := atom()
		for pos < len(toks) && toks[pos] == "AND" {
			pos++
			v = sat(v * atom())
		}
		return v
	}
	orExpr = func() int {
		v := andExpr()
		for pos < len(toks) && toks[pos] == "OR" {
			pos++
			v = sat(v + andExpr())
		}
		return v
	}
	return orExpr()
}

func (g *gen) largeExpr(pool []string) string {
	for try := 0; try < 50; try++ {
		if e := g.largeExpr1(pool); altCount(e) <= maxLargeAlternatives {
			return e
		}
	}
	return g.chain("AND", 7+g.rng.Intn(60), pool)
}

func (g *gen) largeExpr1(pool []string) string {
	n := 7 + g.rng.Intn(60)
	switch g.rng.Intn(10) {
	case 9: // two long names that share a 70-byte prefix, as expression terms (and, below, as allowed entries)
		pre := "LicenseRef-" + strings.Repeat(g.pick([]string{"Vendor-Internal-", "x.", "A1-"}), 24)
		a, b := pre+"-2023", pre+"-2024"
		g.terms = append(g.terms, a, b)
		return g.pick([]string{a + " AND " + b, b, a + " OR " + g.term(pool, true), "(" + b + " AND " + g.term(pool, true) + ") OR " + a})
	case 0:
		return g.chain("AND", n, pool)
	case 1:
		return g.chain("OR", n, pool)
	case 2: // OR of AND groups of growing width
		var gs []string
		for i := 0; i < 3+g.rng.Intn(6); i++ {
			gs = append(gs, "("+g.chain("AND", 2+g.rng.Intn(9), pool)+")")
		}
		return strings.Join(gs, " OR ")
	case 3: // deep redundant nesting around a small expression
		d := 4 + g.rng.Intn(40)
		return strings.Repeat("(", d) + g.chain(g.pick([]string{"AND", "OR"}), 2+g.rng.Intn(3), pool) + strings.Repeat(")", d)
	case 4: // left-nested chain with explicit parentheses
		e := g.term(pool, true)
		for i := 0; i < 6+g.rng.Intn(10); i++ {
			e = "(" + e + " " + g.pick([]string{"AND", "AND", "OR"}) + " " + g.term(pool, true) + ")"
		}
		return e
	case 5: // right-nested alternating nest
		e := g.term(pool, true)
		for i := 0; i < 6+g.rng.Intn(10); i++ {
			op := "AND"
			if i%2 == 1 {
				op = "OR"
			}
			e = g.term(pool, true) + " " + op + " (" + e + ")"
		}
		return e
	case 6: // a few OR groups ANDed with a long AND tail
		var gs []string
		for i := 0; i < 2+g.rng.Intn(3); i++ {
			gs = append(gs, "("+g.chain("OR", 2+g.rng.Intn(3), pool)+")")
		}
		return strings.Join(gs, " AND ") + " AND " + g.chain("AND", 5+g.rng.Intn(14), pool)
	case 7: // long names and blank runs
		name := strings.Repeat(g.pick([]string{"a", "Ab", "x-1.", "Z9"}), 20+g.rng.Intn(40))
		return "LicenseRef-" + name + strings.Repeat(" ", 1+g.rng.Intn(60)) + g.pick([]string{"AND", "OR"}) + strings.Repeat(" ", 1+g.rng.Intn(60)) +
			"DocumentRef-" + name + ":LicenseRef-" + name + " OR " + g.chain("AND", 3, pool)
	}
	return g.expr(n, pool, true) // a random tree with many leaves
}

// longOffsetCall: a long expression (several KB) with unlisted -or-later forms far apart (one near the start, others
// beyond 4 KiB) and an offending id at the very end: the cited offset must still be the caller's (C15).
func (g *gen) longOffsetCall() Event {
	ev, _, _ := g.longOffset()
	return ev
}

// longOffset returns the event plus the position and text of the offender as constructed
func (g *gen) longOffset() (Event, int, string) {
	plain := plainLicenses(g.t)
	p := func() string { return plain[g.rng.Intn(len(plain))] }
	var b strings.Builder
	b.WriteString(p() + "-or-later " + g.pick([]string{"AND", "OR"}) + " ")
	target := 4200 + g.rng.Intn(4000)
	rewrites := 1
	for b.Len() < target {
		if b.Len() > 4100 && rewrites < 4 && g.rng.Intn(40) == 0 {
			b.WriteString(p() + "-or-later OR ")
			rewrites++
		} else {
			b.WriteString(p() + g.pick([]string{"", "+", "-only"}) + " OR ")
		}
	}
	b.WriteString(p() + "-or-later OR ")
	bad := g.pick([]string{"FOO-1.0", "LicenseRef-", "not.a-license", "\xffX", "DocumentRef- "})
	e := b.String() + bad
	at, lex := b.Len(), bad
	switch bad {
	case "LicenseRef-":
		at, lex = b.Len()+len(bad), ""
	case "\xffX":
		lex = ""
	case "DocumentRef- ":
		at, lex = b.Len()+len("DocumentRef-"), ""
	}
	if g.rng.Intn(2) == 0 {
		return eventOf(obsExtract(e), e, nil), at, lex
	}
	l := []string{p()}
	return eventOf(obsSatisfies(e, l), e, l), at, lex
}

func (g *gen) largeCall() Event {
	pool := g.relatedPool()
	g.largeN++
	if g.largeN <= 4 {
		// by construction, at the start of every large trace: two names that agree in their first 64 / 128 bytes, the needed
		// one second (and first) in an allowed list that holds both - fixed-width keys, truncated hashes, prefix compares
		w := 64 * (1 + (g.largeN-1)/2)
		pre := "LicenseRef-" + strings.Repeat("Vendor-Internal.", w/16)
		a, b := pre+"-2023", pre+"-2024"
		l := []string{a, b}
		if g.largeN%2 == 0 {
			l = []string{b, a, pre}
		}
		e := b + " AND " + a
		return eventOf(obsSatisfies(e, l), e, l)
	}
	g.terms = g.terms[:0]
	e := g.largeExpr(pool)
	own := append([]string{}, g.terms...)
	switch g.rng.Intn(10) {
	case 0:
		e = g.mutate(e)
	case 1:
		return eventOf(obsExtract(e), e, nil)
	case 2:
		l := []string{e, g.largeExpr(pool), g.mutate(g.largeExpr(pool)), e}
		return eventOf(obsValidate(l), "", l)
	}
	if g.rng.Intn(3) == 0 {
		return eventOf(obsExtract(e), e, nil)
	}
	// long allowed list built FROM the expression's own terms (most of them, so that large AND groups can be
	// covered and verdicts are not trivially false), plus unrelated entries, repeats and re-spellings, shuffled
	var a []string
	keep := 0.55 + 0.45*g.rng.Float64()
	for _, t := range own {
		if g.rng.Float64() < keep {
			a = append(a, t)
		}
	}
	a = append(a, g.allowedList(pool, 2+g.rng.Intn(10))...)
	for i := 0; i < len(a)/3; i++ {
		a = append(a, a[g.rng.Intn(len(a))])
	}
	g.rng.Shuffle(len(a), func(i, j int) { a[i], a[j] = a[j], a[i] })
	// sometimes one invalid or compound entry, anywhere - also late in a long list
	if g.rng.Intn(4) == 0 && len(a) > 0 {
		bad := g.pick([]string{g.mutate(g.term0(pool, true)), g.term0(pool, true) + " AND " + g.term0(pool, true), "", "FOO-unknown"})
		at := g.rng.Intn(len(a) + 1)
		a = append(a[:at:at], append([]string{bad}, a[at:]...)...)
	}
	return eventOf(obsSatisfies(e, a), e, a)
}

// ------------------------------------------------------------------ repetitions
//
// The same call many times: results that depend on goroutine scheduling, map iteration order, select's random
// choice, pooled buffers or garbage collection differ between identical calls.  The calls are of the shapes an
// implementation would parallelise or batch: long ValidateLicenses lists with invalid entries (also at the very
// end), long allowed lists whose needed entry comes last, expressions with 16-64 alternatives that are satisfied
// by exactly one of them, extractions of several hundred flattened terms.

func (g *gen) repeatCalls() []func() (Obs, string, []string) {
	plain := plainLicenses(g.t)
	p := func() string { return plain[g.rng.Intn(len(plain))] }
	var calls []func() (Obs, string, []string)
	// long lists for ValidateLicenses
	for k := 0; k < 3; k++ {
		n := 18 + g.rng.Intn(60)
		l := make([]string, n)
		for i := range l {
			l[i] = p()
		}
		for _, at := range []int{n - 1, n - 2, g.rng.Intn(n), g.rng.Intn(n), 5 % n, 8 % n} {
			l[at] = g.pick([]string{"FOO-unknown", "MIT AND", "(", "LicenseRef-", "mit and isc"})
		}
		ll := l
		calls = append(calls, func() (Obs, string, []string) { return obsValidate(ll), "", ll })
	}
	// long allowed lists, the needed entry last / first
	for k := 0; k < 3; k++ {
		n := 26 + g.rng.Intn(40)
		l := make([]string, n)
		for i := range l {
			l[i] = p()
		}
		need := "LicenseRef-needed-" + strconv.Itoa(k)
		l[n-1] = need
		e := need + " AND " + l[0]
		ll, ee := l, e
		calls = append(calls, func() (Obs, string, []string) { return obsSatisfies(ee, ll), ee, ll })
	}
	// 16-64 alternatives, exactly one of them covered (and which one varies)
	for k := 0; k < 4; k++ {
		groups := 4 + g.rng.Intn(3)
		var gs, allow []string
		for i := 0; i < groups; i++ {
			a, b := p(), p()
			gs = append(gs, "("+a+" OR "+b+")")
			if g.rng.Intn(2) == 0 {
				allow = append(allow, a)
			} else {
				allow = append(allow, b)
			}
		}
		e := strings.Join(gs, " AND ")
		ee, aa := e, allow
		calls = append(calls, func() (Obs, string, []string) { return obsSatisfies(ee, aa), ee, aa })
		calls = append(calls, func() (Obs, string, []string) { return obsExtract(ee), ee, nil })
	}
	// a wide OR chain satisfied only by its last-sorting operand
	{
		var ops []string
		for i := 0; i < 20+g.rng.Intn(20); i++ {
			ops = append(ops, p())
		}
		ops = append(ops, "LicenseRef-zz-last")
		e := strings.Join(ops, " OR ")
		calls = append(calls, func() (Obs, string, []string) { return obsSatisfies(e, []string{"LicenseRef-zz-last"}), e, []string{"LicenseRef-zz-last"} })
	}
	// single-term extractions (the smallest results) interleaved with others
	for k := 0; k < 3; k++ {
		e := p()
		calls = append(calls, func() (Obs, string, []string) { return obsExtract(e), e, nil })
	}
	return calls
}

func sameObs(a, b Obs) bool {
	return a.Panic == b.Panic && a.Sat == b.Sat && a.Err == b.Err && a.OK == b.OK && a.OutNil == b.OutNil &&
		sameStrings(a.Invalid, b.Invalid) && sameStrings(a.Out, b.Out) && a.ErrText == b.ErrText
}

func (g *gen) repeatEvents(reps int) []Event {
	calls := g.repeatCalls()
	first := make([]Obs, len(calls))
	args := make([][2]interface{}, len(calls))
	unstable := make([]int, len(calls))
	alias := make([]bool, len(calls))
	for r := 0; r < reps; r++ {
		for i, c := range calls { // interleaved, so that pooled buffers travel between different calls
			o, e, l := c()
			if r == 0 {
				first[i] = o
				args[i] = [2]interface{}{e, l}
			} else if !sameObs(o, first[i]) {
				unstable[i]++
			}
			alias[i] = alias[i] || o.Aliased
		}
	}
	var evs []Event
	for i := range calls {
		e, _ := args[i][0].(string)
		l, _ := args[i][1].([]string)
		ev := eventOf(first[i], e, l)
		ev.Unstable, ev.Reps, ev.Alias = unstable[i], reps, alias[i]
		evs = append(evs, ev)
	}
	return evs
}

// ------------------------------------------------------------------ sessions
//
// A session is a short HISTORY of related calls: the same few ids over and over, in every spelling a
// cache key might confuse (letter case, '+' / -or-later / -only, LicenseRef twins of listed ids, blank /
// tab / newline variants, the same string as expression, as allowed entry and as ValidateLicenses
// element, compound strings as allowed entries), through all three functions.  The specification says
// every call is a function of its arguments alone; the whole history is one trace, so a result that
// depends on what was called before is rejected at the event where it shows.

func (g *gen) focusIDs() []string {
	t := g.t
	act := map[string]bool{}
	for _, x := range t.Active {
		act[x] = true
	}
	var depFold, laterListed, bareOnlyPlus, long, dup []string
	for _, x := range t.Deprecated {
		if !strings.HasSuffix(x, "+") && act[x+"-or-later"] {
			depFold = append(depFold, x)
		}
	}
	pos := map[string]int{}
	for _, f := range t.Ranges {
		seen := map[string]bool{}
		for _, st := range f {
			for _, x := range st {
				if !seen[x] {
					pos[x]++
					seen[x] = true
				}
			}
		}
	}
	for x, n := range pos {
		if n > 1 {
			dup = append(dup, x)
		}
	}
	sortStrings(dup)
	for _, x := range t.Active {
		if strings.HasSuffix(x, "-or-later") {
			laterListed = append(laterListed, x)
			base := strings.TrimSuffix(x, "-or-later")
			if !act[base] && !inList(t.Deprecated, base) {
				bareOnlyPlus = append(bareOnlyPlus, base) // e.g. GFDL-1.2-invariants: invalid bare, valid with '+'
			}
		}
		if len(x) > 32 {
			long = append(long, x)
		}
	}
	cats := [][]string{depFold, laterListed, bareOnlyPlus, long, dup, t.Active, g.pick2(g.fam), g.pick2(g.fam)}
	var out []string
	for len(out) < 1 {
		c := cats[g.rng.Intn(len(cats))]
		if len(c) > 0 {
			out = append(out, g.pick(c))
		}
	}
	// members of EVERY table family that lists the focus id (an id listed twice brings both families in)
	base := strings.TrimSuffix(strings.TrimSuffix(out[0], "-or-later"), "-only")
	for _, f := range g.fam {
		if inList(f, out[0]) || inList(f, base) {
			out = append(out, f[len(f)-1], g.pick(f))
		}
	}
	if len(out) == 1 {
		out = append(out, g.pick(t.Active))
	}
	return out
}

// dupFocus: the ids that sit at several table positions together with the last member of each of their families
func (g *gen) dupFocus(reverse bool) []string {
	pos := map[string][]int{}
	for fi, f := range g.fam {
		seen := map[string]bool{}
		for _, x := range f {
			if !seen[x] {
				pos[x] = append(pos[x], fi)
				seen[x] = true
			}
		}
	}
	var out []string
	for x, fs := range pos {
		if len(fs) > 1 {
			out = append(out, x)
			for _, fi := range fs {
				out = append(out, g.fam[fi][len(g.fam[fi])-1])
			}
		}
	}
	sortStrings(out)
	if reverse {
		for i, j := 0, len(out)-1; i < j; i, j = i+1, j-1 {
			out[i], out[j] = out[j], out[i]
		}
	}
	return out
}

func sortStrings(l []string) {
	for i := 1; i < len(l); i++ {
		for j := i; j > 0 && l[j] < l[j-1]; j-- {
			l[j], l[j-1] = l[j-1], l[j]
		}
	}
}

// altCase: ONE fixed non-list spelling per id (so that the same spelling recurs with and without a suffix)
func altCase(s string) string {
	b := []byte(s)
	for i, c := range b {
		if i%2 == 0 && c >= 'a' && c <= 'z' {
			b[i] = c - 32
		} else if i%2 == 1 && c >= 'A' && c <= 'Z' {
			b[i] = c + 32
		}
	}
	return string(b)
}

func (g *gen) idVariants(x string) []string {
	base := strings.TrimSuffix(strings.TrimSuffix(x, "-or-later"), "-only")
	alt := altCase(base)
	v := []string{x, strings.ToLower(x), base, base + "+", alt, alt + "+", alt + "-or-later", strings.ToLower(base) + "+", strings.ToUpper(base),
		base + "-or-later", base + "-only", "LicenseRef-" + base, "LicenseRef-" + alt, base + "+ OR " + base + "-or-later",
		"LicenseRef-" + strings.Repeat("n", 21+g.rng.Intn(3)), "LicenseRef-" + strings.Repeat("N.", 26+g.rng.Intn(2)) + g.pick([]string{"", "x"}),
		"(" + x + ")", " " + x, x + "\t", x + "\n"}
	return v
}

func (g *gen) wsVariant(s string) string {
	switch g.rng.Intn(6) {
	case 0:
		return strings.ReplaceAll(s, " ", "  ")
	case 1:
		return strings.Replace(s, " ", "\t", 1)
	case 2:
		return strings.Replace(s, " ", "\n", 1)
	case 3:
		return strings.ToLower(s)
	case 4:
		return swapCase(s)
	}
	return s
}

// sessionEvents: n sessions of about a dozen calls each
// unicodeEvents: arguments that contain well-formed non-ASCII text exactly where a Unicode-aware rewrite of the
// byte-level scanner or of the table lookup would start to behave differently: the two case-fold partners of
// ASCII letters (U+017F for s, U+212A for k) inside listed ids, Unicode letters / digits inside reference
// names, Unicode blanks as separators or padding, full-width operators.  The specification maps every such
// byte to the foreign symbol, so all of these are invalid; what is compared is what the real functions say.
func (g *gen) unicodeEvents(k int) []Event {
	var evs []Event
	three := func(text, partner string) {
		evs = append(evs, eventOf(obsExtract(text), text, nil))
		l := []string{partner, text}
		evs = append(evs, eventOf(obsValidate(l), "", l))
		evs = append(evs, eventOf(obsSatisfies(partner, l), partner, l))
		evs = append(evs, eventOf(obsSatisfies(text, []string{partner}), text, []string{partner}))
	}
	var foldable, foldableExc []string
	for _, id := range append(append([]string{}, g.t.Active...), g.t.Deprecated...) {
		if strings.ContainsAny(id, "sSkK") && !strings.HasSuffix(id, "+") {
			foldable = append(foldable, id)
		}
	}
	for _, id := range g.t.Exceptions {
		if strings.ContainsAny(id, "sSkK") {
			foldableExc = append(foldableExc, id)
		}
	}
	fold := func(id string) string {
		var at []int
		for i := 0; i < len(id); i++ {
			if strings.IndexByte("sSkK", id[i]) >= 0 {
				at = append(at, i)
			}
		}
		i := at[g.rng.Intn(len(at))]
		if id[i] == 's' || id[i] == 'S' {
			return id[:i] + "\u017f" + id[i+1:]
		}
		return id[:i] + "\u212a" + id[i+1:]
	}
	for j := 0; j < k; j++ {
		id := g.pick(foldable)
		three(fold(id), id)
		if j%2 == 0 { // first character
			for _, x := range foldable {
				if strings.IndexByte("sSkK", x[0]) >= 0 && g.rng.Intn(3) == 0 {
					three(fold(x[:1])+x[1:], x)
					break
				}
			}
		}
		if len(foldableExc) > 0 {
			exc := g.pick(foldableExc)
			lic := g.pick(g.t.Active)
			three(lic+" WITH "+fold(exc), lic+" WITH "+exc)
		}
		// reference names
		name := g.pick([]string{"caf\u00e9", "\u0434\u043e\u043a", "x\uff11", "a\u0663", "\uff21bc", "cu\u017ftom", "\u212a", "a\u0301", "n\u00b5", "\U0001d40c"})
		ref := "LicenseRef-" + name
		if g.rng.Intn(2) == 0 {
			ref = "DocumentRef-" + name + ":LicenseRef-a"
		}
		three(ref, "LicenseRef-a")
		// blanks
		a, b := g.pick(g.t.Active), g.pick(g.t.Active)
		blank := g.pick([]string{"\u00a0", "\u2003", "\u3000", "\u0085", "\u2028", "\u1680", "\u202f", "\ufeff", "\u200b"})
		switch g.rng.Intn(4) {
		case 0:
			three(a+blank+"AND "+b, a+" AND "+b)
		case 1:
			three(a+" OR"+blank+b, a+" OR "+b)
		case 2:
			three(a+blank, a)
		default:
			three(blank+a, a)
		}
		// operators
		op := g.pick([]string{"\uff21ND", "A\u039dD", "\u039fR", "O\u0280", "W\u0130TH", "W\u0131TH", "\uff0b"})
		if op == "\uff0b" {
			three(a+op, a+"+")
		} else {
			three(a+" "+op+" "+b, a+" AND "+b)
		}
	}
	return evs
}

func (g *gen) sessionEvents(n int, reverse bool) []Event {
	var evs []Event
	for i := 0; i < n; i++ {
		ids := g.focusIDs()
		if i == 0 {
			// the first session of a process is about the ids listed at several table positions, walked in a
			// fixed order (forward in one process, backward in another): whichever family a lazily built index
			// sees first / last, one of the two processes has it the other way round
			if d := g.dupFocus(reverse); len(d) > 0 {
				for round := 0; round < 2; round++ {
					for _, x := range d {
						for _, y := range d {
							e, l := x+"+", []string{y}
							evs = append(evs, eventOf(obsSatisfies(e, l), e, l))
						}
					}
				}
			}
		}
		if i == 0 {
			evs = append(evs, g.unicodeEvents(4)...)
		}
		exc := g.pick(g.t.Exceptions)
		other := g.pick(g.t.Active)
		var texts []string
		for _, x := range ids {
			texts = append(texts, g.idVariants(x)...)
		}
		a, b := ids[0], ids[len(ids)-1]
		comp := []string{a + " AND " + other, a + " OR " + b, other + " OR LicenseRef-" + a, other + " OR " + a, a + " WITH " + exc, a + "+ WITH " + exc,
			a + " AND " + a + " WITH " + exc, "(" + a + " OR " + b + ") AND " + other, strings.TrimSuffix(a, "-or-later") + "-or-later AND " + other + "-or-later"}
		for _, c := range comp {
			texts = append(texts, c, g.wsVariant(c))
		}
		// the whole text in another letter case: operators and Ref prefixes are case-sensitive, ids are not - a cache keyed by
		// a case-folded (or blank-normalised) text confuses a valid spelling with an invalid one
		for _, c := range []string{comp[0], comp[1], comp[4], other + " OR LicenseRef-" + a, "DocumentRef-" + a + ":LicenseRef-" + b} {
			texts = append(texts, c, strings.ToLower(c), strings.ToUpper(c))
		}
		// a list and its elements glued into ONE string by the separators a cache key might be built with
		for _, sep := range []string{",", " ", "\x00", "\n", "|", ";", ":", ", "} {
			x, y := g.pick(ids), other
			split, glued := []string{x, y}, []string{x + sep + y}
			order := [][]string{glued, split, glued}
			if g.rng.Intn(2) == 0 {
				order = [][]string{split, glued, split}
			}
			for _, l := range order {
				evs = append(evs, eventOf(obsSatisfies(x, l), x, l))
				evs = append(evs, eventOf(obsValidate(l), "", l))
			}
		}
		for k := 0; k < 24; k++ {
			e := g.pick(texts)
			switch g.rng.Intn(5) {
			case 0:
				evs = append(evs, eventOf(obsExtract(e), e, nil))
			case 1:
				l := []string{e, g.pick(texts)}
				evs = append(evs, eventOf(obsValidate(l), "", l))
			case 2:
				l := []string{g.pick(texts), g.pick(texts)}
				if g.rng.Intn(3) == 0 {
					l = append(l, l[0])
				}
				evs = append(evs, eventOf(obsSatisfies(e, l), e, l))
			case 3:
				// consecutive calls through ONE recycled caller buffer, overwritten in place between calls
				for r := 0; r < 3; r++ {
					l := []string{g.pick(texts)}
					if g.rng.Intn(2) == 0 {
						l = append(l, g.pick(texts))
					}
					e2 := g.pick(texts)
					evs = append(evs, eventOf(obsSatisfiesReuse(e2, l), e2, l))
				}
			default:
				l := []string{g.pick(texts)}
				evs = append(evs, eventOf(obsSatisfies(e, l), e, l))
			}
		}
	}
	return evs
}

func cmdDrive(args []string) int {
	fs := flag.NewFlagSet("drive", flag.ExitOnError)
	seed := fs.Int64("seed", 1, "")
	n := fs.Int("n", 500, "number of calls")
	flavor := fs.String("flavor", "mixed", "mixed|sat|invalid|lists|extract")
	maxLeaves := fs.Int("leaves", 8, "")
	out := fs.String("out", "trace.ndjson", "")
	_ = fs.Parse(args)

	g := newGen(*seed)
	recordStages()
	defer setHook(nil)
	f, err := os.Create(*out)
	if err != nil {
		fmt.Fprintln(os.Stderr, err)
		return 2
	}
	defer f.Close()
	w := bufio.NewWriter(f)
	defer w.Flush()
	enc := json.NewEncoder(w)
	enc.SetEscapeHTML(false)
	var pre []Event
	if *flavor == "session" {
		pre = g.sessionEvents(*n, *seed%2 == 0)
		*n = len(pre)
	}
	if *flavor == "repeat" {
		stageSink = nil
		setHook(nil) // (stage recording is for single calls; the repeated calls run bare)
		pre = g.repeatEvents(*n)
		*n = len(pre)
	}
	for i := 0; i < *n; i++ {
		var ev Event
		if pre != nil {
			ev = pre[i]
		} else {
			ev = g.call(*flavor, *maxLeaves)
		}
		ev.Seq = i + 1
		if ev.A == nil {
			ev.A = []string{}
		}
		if err := enc.Encode(ev); err != nil {
			fmt.Fprintln(os.Stderr, err)
			return 2
		}
	}
	return 0
}
