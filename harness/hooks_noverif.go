//go:build !verif

package main

const hooksAvailable = false

func setHook(h func(fn, stage string)) {}
