package main

import (
	"bufio"
	"encoding/json"
	"flag"
	"fmt"
	"math/rand"
	"os"
	"sort"
	"strings"
	"sync"
)

// Rec is one behaviour emitted by TLC (terminal state of a model run):
// concrete input text(s) rendered by the model + the observation it predicts.
type Rec struct {
	K     string     `json:"k"`               // record kind
	E     string     `json:"e,omitempty"`     // expression
	Es    []string   `json:"es,omitempty"`    // expression variants that must all behave as predicted
	U     []string   `json:"u,omitempty"`     // allowed universe (satb)
	Us    [][]string `json:"us,omitempty"`    // universe variants (element-wise re-spellings)
	V     string     `json:"v,omitempty"`     // verdict per non-empty subset mask 1..2^n-1 ('0'/'1')
	Valid bool       `json:"valid,omitempty"` // expression valid
	A     []string   `json:"a,omitempty"`     // allowed list (sat)
	Ls    [][]string `json:"ls,omitempty"`    // allowed-list variants denoting the same set (lists)
	Sat   bool       `json:"sat,omitempty"`
	Err   bool       `json:"err,omitempty"`
	L     []string   `json:"l,omitempty"`   // licenses argument (val)
	OK    bool       `json:"ok,omitempty"`  // val
	Bad   []string   `json:"bad,omitempty"` // val
	Terms [][]string `json:"terms,omitempty"` // ext: per distinct term its acceptable spellings
	S     string     `json:"s,omitempty"`     // str / off
	Comp  bool       `json:"compound,omitempty"`
	Amb   []string   `json:"amb,omitempty"` // non-empty: outside the oracle (R1-R3), relational checks only
	Kind  string     `json:"kind,omitempty"`
	Off   int        `json:"off,omitempty"`
	Lex   string     `json:"lex,omitempty"`
	B     string     `json:"b,omitempty"` // pair: allowed entry
	M     bool       `json:"m,omitempty"` // pair: match expected
	Posdep bool      `json:"posdep,omitempty"` // pair: answer depends on a duplicate table position (R9): no oracle
	N     int        `json:"n,omitempty"` // tally
	Tag   string     `json:"tag,omitempty"`
	Calls  []CallJ   `json:"calls,omitempty"`  // same: calls that must all give one answer
	Exp    []ResJ    `json:"exp,omitempty"`    // same: the model's prediction per call (optional)
	Family string    `json:"family,omitempty"` // cost
	Cells  int64     `json:"cells,omitempty"`
	Alts   int64     `json:"alts,omitempty"`
	NTerms int       `json:"nterms,omitempty"`
	Poly   bool      `json:"poly,omitempty"`
	Order  []int     `json:"order,omitempty"`  // sched: goroutine to step, in order
	Inv    string    `json:"inv,omitempty"`    // tableinv
	Fam    int       `json:"fam,omitempty"`
	Ids    []string  `json:"ids,omitempty"`
	T      string    `json:"t,omitempty"`      // acc: accepted token-class sequence, space separated
	MaxLen int       `json:"maxlen,omitempty"` // cfg
	LexL   string    `json:"lexL,omitempty"`
	LexE   string    `json:"lexE,omitempty"`
	LexLR  string    `json:"lexLR,omitempty"`
	LexDR  string    `json:"lexDR,omitempty"`
}

type CallJ struct {
	E string   `json:"e"`
	A []string `json:"a"`
}
type ResJ struct {
	Sat bool `json:"sat"`
	Err bool `json:"err"`
}

type Mismatch struct {
	Prop     string      `json:"property"`
	What     string      `json:"what"`
	Fn       string      `json:"fn"`
	Expr     string      `json:"expr,omitempty"`
	List     []string    `json:"list,omitempty"`
	Expected interface{} `json:"expected"`
	Observed interface{} `json:"observed"`
	Rec      *Rec        `json:"record,omitempty"`
	RawHex   []string    `json:"rawhex,omitempty"`
}

// foreign bytes standing for the model's single OTHER symbol '#'
var foreignBytes = []byte{0x00, 0x01, 0x07, 0x09, 0x0a, 0x0d, 0x1f, 0x7f, 0x80, 0x9f, 0xa0, 0xc3, 0xe2, 0xf0, 0xfe, 0xff,
	'_', '#', '!', '"', '$', '%', '&', '\'', '*', ',', '/', ';', '<', '=', '>', '?', '@', '[', '\\', ']', '^', '`', '{', '|', '}', '~'}

// well-formed multi-byte runes, by encoded length: what a rune-aware or Unicode-aware rewrite of the scanner
// or of the table lookup would treat as a letter, a digit, a blank or a case partner of an ASCII letter.
// A run of k '#' symbols may stand for one rune of k bytes, so byte offsets stay as the model computed them.
var foreignRunes = map[int][]string{
	2: {"\u00e9", "\u017f", "\u0131", "\u0130", "\u00a0", "\u0085", "\u0663", "\u0391", "\u0410", "\u00df", "\u00b5", "\u0301", "\u00ad"},
	3: {"\u212a", "\u2003", "\u2028", "\u3000", "\uff2d", "\uff11", "\ufeff", "\u2010", "\u2212", "\uff0b", "\uff08", "\uff09", "\uff1a", "\u1e9e", "\u200b", "\ufffd"},
	4: {"\U0001d40c", "\U0001d7cf", "\U0001f600", "\U00010400"},
}

func substOther(s string, rng *rand.Rand) string {
	if !strings.Contains(s, "#") {
		return s
	}
	b := []byte(s)
	for i := 0; i < len(b); i++ {
		if b[i] != '#' {
			continue
		}
		run := 1
		for i+run < len(b) && b[i+run] == '#' {
			run++
		}
		if run >= 2 && rng.Intn(2) == 0 {
			k := 2 + rng.Intn(min(run, 4)-1)
			r := foreignRunes[k][rng.Intn(len(foreignRunes[k]))]
			copy(b[i:], r)
			i += k - 1
			continue
		}
		b[i] = foreignBytes[rng.Intn(len(foreignBytes))]
	}
	return string(b)
}
func substAll(l []string, rng *rand.Rand) []string {
	if l == nil {
		return nil
	}
	out := make([]string, len(l))
	for i, s := range l {
		out[i] = substOther(s, rng)
	}
	return out
}

// abstractOther maps every byte outside the scanner's alphabet back to '#'.
func abstractOther(s string) string {
	b := []byte(s)
	for i, c := range b {
		if !(c == ' ' || c == '(' || c == ')' || c == ':' || c == '+' || c == '-' || c == '.' ||
			(c >= '0' && c <= '9') || (c >= 'A' && c <= 'Z') || (c >= 'a' && c <= 'z')) {
			b[i] = '#'
		}
	}
	return string(b)
}

type replayer struct {
	prop   string
	anchor string // a valid single-term expression from the shipped tables
	mu     sync.Mutex
	mism   []Mismatch
	nMism  int
	calls  int64
	recs   int64
	byKind map[string]int64
	nontrivial int64
	samples []json.RawMessage
	tallies map[string]int
	allVariants bool
	costs       []Rec
	conc        *ConcWorkload
	concSeq     []Obs
	accepted map[string]bool // acc records: the token-class sequences the model accepts
	tokCfg   *Rec
}

func (r *replayer) report(m Mismatch) {
	r.mu.Lock()
	defer r.mu.Unlock()
	r.nMism++
	if len(r.mism) < 2000 {
		r.mism = append(r.mism, m)
	}
}

func subsetOf(u []string, mask int) []string {
	out := []string{}
	for i := range u {
		if mask&(1<<uint(i)) != 0 {
			out = append(out, u[i])
		}
	}
	return out
}

// checkRec replays one record; returns number of real calls made and whether the case is non-trivial.
func (r *replayer) checkRec(rec *Rec, rng *rand.Rand) (calls int, nontrivial bool) {
	bad := func(what, fn, expr string, list []string, exp, obs interface{}) {
		r.report(Mismatch{Prop: r.prop, What: what, Fn: fn, Expr: expr, List: list, Expected: exp, Observed: obs, Rec: rec})
	}
	common := func(o Obs, expr string, list []string) bool {
		if o.Panic != "" {
			bad("panic", o.Fn, expr, list, "no panic", o)
			return false
		}
		if o.Mutated {
			bad("argument-mutated", o.Fn, expr, list, "caller's slice untouched", o)
		}
		return true
	}
	switch rec.K {
	case "satb":
		es := rec.Es
		if len(es) == 0 {
			es = []string{rec.E}
		}
		us := rec.Us
		if len(us) == 0 {
			us = [][]string{rec.U}
		}
		for _, e0 := range es {
			e := substOther(e0, rng)
			for _, u := range us {
				n := len(u)
				obsV := make([]bool, 1<<uint(n))
				for mask := 1; mask < 1<<uint(n); mask++ {
					list := subsetOf(u, mask)
					o := obsSatisfies(e, list)
					calls++
					if !common(o, e, list) {
						continue
					}
					expSat := rec.Valid && mask-1 < len(rec.V) && rec.V[mask-1] == '1'
					expErr := !rec.Valid
					if o.Err != expErr || o.Sat != expSat {
						bad("verdict", "Satisfies", e, list, map[string]bool{"sat": expSat, "err": expErr}, o)
					}
					obsV[mask] = o.Sat
					if expSat {
						nontrivial = true
					}
				}
				// C07 monotonicity directly on the observed verdicts
				for a := 1; a < 1<<uint(n); a++ {
					if !obsV[a] {
						continue
					}
					for b := a; b < 1<<uint(n); b++ {
						if a&b == a && !obsV[b] {
							bad("non-monotone", "Satisfies", e, subsetOf(u, b), "satisfied (a sub-list already satisfies)", subsetOf(u, a))
						}
					}
				}
			}
		}
	case "sat":
		e := substOther(rec.E, rng)
		a := substAll(rec.A, rng)
		o := obsSatisfies(e, a)
		calls++
		if common(o, e, a) && (o.Err != rec.Err || o.Sat != rec.Sat) {
			bad("verdict", "Satisfies", e, a, map[string]bool{"sat": rec.Sat, "err": rec.Err}, o)
		}
		nontrivial = rec.Sat
	case "lists":
		e := substOther(rec.E, rng)
		for _, l0 := range rec.Ls {
			l := substAll(l0, rng)
			o := obsSatisfies(e, l)
			calls++
			if common(o, e, l) && !rec.Posdep && (o.Err != rec.Err || o.Sat != rec.Sat) {
				bad("verdict-depends-on-list-form", "Satisfies", e, l, map[string]bool{"sat": rec.Sat, "err": rec.Err}, o)
			}
		}
		nontrivial = len(rec.Ls) > 1
	case "same":
		var first *Obs
		for i, c := range rec.Calls {
			e := substOther(c.E, rng)
			a := substAll(c.A, rng)
			o := obsSatisfies(e, a)
			calls++
			if !common(o, e, a) {
				continue
			}
			if i < len(rec.Exp) && len(rec.Amb) == 0 && !rec.Posdep {
				if o.Err != rec.Exp[i].Err {
					bad("validity", "Satisfies", e, a, rec.Exp[i], o)
				} else if o.Sat != rec.Exp[i].Sat {
					bad("verdict", "Satisfies", e, a, rec.Exp[i], o)
				}
				if rec.Exp[i].Sat {
					nontrivial = true
				}
			}
			if first == nil {
				oc := o
				first = &oc
			} else if o.Err != first.Err || o.Sat != first.Sat {
				bad("not-interchangeable", "Satisfies", e, a, map[string]interface{}{"sameAs": rec.Calls[0], "sat": first.Sat, "err": first.Err}, o)
			}
		}
	case "pair":
		o := obsSatisfies(rec.E, []string{rec.B})
		calls++
		if common(o, rec.E, []string{rec.B}) {
			if o.Err {
				bad("match", "Satisfies", rec.E, []string{rec.B}, map[string]bool{"sat": rec.M, "err": false}, o)
			} else if o.Sat != rec.M {
				what := "match"
				if rec.Tag == "natural" {
					what = "plus-natural-order"
				}
				if rec.Posdep {
					what += "-duplicate-position"
				}
				bad(what, "Satisfies", rec.E, []string{rec.B}, map[string]bool{"sat": rec.M, "err": false}, o)
			}
		}
		nontrivial = rec.M
	case "val":
		l := substAll(rec.L, rng)
		o := obsValidate(l)
		calls++
		expBad := substAllSame(rec.L, l, rec.Bad)
		if common(o, "", l) && (o.OK != rec.OK || !sameStrings(o.Invalid, expBad)) {
			bad("validate", "ValidateLicenses", "", l, map[string]interface{}{"ok": rec.OK, "invalid": expBad}, o)
		}
		nontrivial = !rec.OK && len(rec.Bad) < len(rec.L)
	case "ext":
		e := substOther(rec.E, rng)
		o := obsExtract(e)
		calls++
		if !common(o, e, nil) {
			break
		}
		if rec.Err {
			if !o.Err || !o.OutNil {
				bad("extract-error", "ExtractLicenses", e, nil, "error and nil result", o)
			}
			break
		}
		if o.Err {
			bad("extract-error", "ExtractLicenses", e, nil, "no error", o)
			break
		}
		hit := make([]int, len(rec.Terms))
		for _, x := range o.Out {
			found := false
			for ti, sp := range rec.Terms {
				for _, s := range sp {
					if s == x {
						hit[ti]++
						found = true
					}
				}
			}
			if !found {
				bad("extract-invented", "ExtractLicenses", e, nil, rec.Terms, o)
			}
		}
		for ti := range hit {
			if hit[ti] == 0 {
				bad("extract-missing", "ExtractLicenses", e, nil, rec.Terms[ti], o)
			} else if hit[ti] > 1 {
				bad("extract-duplicate", "ExtractLicenses", e, nil, rec.Terms[ti], o)
			}
		}
		// round trips (C06): each returned string is a valid single term extracting to itself;
		// the returned list satisfies the expression
		for _, x := range o.Out {
			ox := obsExtract(x)
			calls++
			if common(ox, x, nil) && (ox.Err || len(ox.Out) != 1 || ox.Out[0] != x) {
				bad("extract-roundtrip", "ExtractLicenses", x, nil, []string{x}, ox)
			}
		}
		if len(o.Out) > 0 {
			os := obsSatisfies(e, o.Out)
			calls++
			if common(os, e, o.Out) && (os.Err || !os.Sat) {
				bad("extract-self-satisfy", "Satisfies", e, o.Out, map[string]bool{"sat": true, "err": false}, os)
			}
		}
		nontrivial = len(rec.Terms) > 1
	case "str":
		s := substOther(rec.S, rng)
		ov := obsValidate([]string{s})
		oe := obsExtract(s)
		o1 := obsSatisfies(s, []string{r.anchor})
		o2 := obsSatisfies(r.anchor, []string{s})
		calls += 4
		okAll := common(ov, "", []string{s}) && common(oe, s, nil) && common(o1, s, []string{r.anchor}) && common(o2, r.anchor, []string{s})
		if !okAll {
			break
		}
		// relational form (always): the three entry points agree with each other
		v := ov.OK
		if oe.Err == v {
			bad("validity-disagreement", "ExtractLicenses", s, nil, map[string]bool{"validateOK": v}, oe)
		}
		if o1.Err == v {
			bad("validity-disagreement", "Satisfies", s, []string{r.anchor}, map[string]bool{"validateOK": v}, o1)
		}
		if v && !sameStrings(ov.Invalid, []string{}) || !v && !sameStrings(ov.Invalid, []string{s}) {
			bad("validate-list", "ValidateLicenses", "", []string{s}, "invalid list = exactly the invalid elements", ov)
		}
		if oe.Err && !oe.OutNil || o1.Err && o1.Sat || o2.Err && o2.Sat {
			bad("result-with-error", "any", s, nil, "false / nil result whenever an error is returned", []Obs{oe, o1, o2})
		}
		if !v && !o2.Err {
			bad("invalid-allowed-entry-accepted", "Satisfies", r.anchor, []string{s}, "error", o2)
		}
		if len(rec.Amb) == 0 {
			// oracle form
			if v != rec.Valid {
				bad("validity", "ValidateLicenses", "", []string{s}, map[string]bool{"valid": rec.Valid}, ov)
			}
			expErr2 := !rec.Valid || rec.Comp
			if o2.Err != expErr2 {
				bad("allowed-entry", "Satisfies", r.anchor, []string{s}, map[string]bool{"err": expErr2}, o2)
			}
		}
		nontrivial = rec.Valid
	case "off":
		s := substOther(rec.S, rng)
		type call struct {
			o    Obs
			expr string
			list []string
		}
		oe := obsExtract(s)
		o1 := obsSatisfies(s, []string{r.anchor})
		o2 := obsSatisfies(r.anchor, []string{s})
		calls += 3
		for _, c := range []call{{oe, s, nil}, {o1, s, []string{r.anchor}}, {o2, r.anchor, []string{s}}} {
			if !common(c.o, c.expr, c.list) {
				continue
			}
			if !c.o.Err {
				bad("offset-no-error", c.o.Fn, c.expr, c.list, "an error", c.o)
				continue
			}
			off, lex := errOffset(c.o.ErrText)
			exp := map[string]interface{}{"offset": rec.Off, "lexeme": rec.Lex, "kind": rec.Kind}
			if off != rec.Off || off < 0 || off > len(s) {
				bad("offset", c.o.Fn, c.expr, c.list, exp, c.o)
				continue
			}
			if rec.Kind == "unknown-id" {
				if lex != rec.Lex || off+len(lex) > len(s) || s[off:off+len(lex)] != lex {
					bad("lexeme", c.o.Fn, c.expr, c.list, exp, c.o)
				}
			}
		}
		nontrivial = rec.Off > 0
	case "cost":
		r.mu.Lock()
		r.costs = append(r.costs, *rec)
		r.mu.Unlock()
	case "sched":
		if r.conc == nil {
			bad("no-workload", "", "", nil, "", "sched record without -calls")
			break
		}
		for _, p := range replaySchedule(r.conc, rec.Order, r.concSeq) {
			r.report(Mismatch{Prop: r.prop, What: p.What, Fn: "concurrent workload", Expr: fmt.Sprint(rec.Order), Expected: "the sequential results, untouched arguments, the specified stage sequence", Observed: p.Detail, Rec: rec})
		}
		calls += len(r.conc.Calls)
		nontrivial = true
	case "tableinv":
		r.report(Mismatch{Prop: r.prop, What: "table-" + rec.Inv, Fn: "spdxlicenses.LicenseRanges", List: rec.Ids,
			Expected: "well-formed family table (C11 clause " + rec.Inv + ")", Observed: map[string]interface{}{"family": rec.Fam, "ids": rec.Ids}, Rec: rec})
	case "acc":
		r.mu.Lock()
		r.accepted[rec.T] = true
		r.mu.Unlock()
	case "cfg":
		r.mu.Lock()
		c := *rec
		r.tokCfg = &c
		r.mu.Unlock()
	case "tally":
		r.mu.Lock()
		r.tallies[rec.Tag] += rec.N
		r.mu.Unlock()
	default:
		bad("unknown-record-kind", "", "", nil, "", rec.K)
	}
	return
}

// substAllSame maps the expected invalid list through the same substitution as the input list.
func substAllSame(orig, subst, bad []string) []string {
	out := []string{}
	j := 0
	for i := range orig {
		if j < len(bad) && orig[i] == bad[j] {
			// ambiguity (equal strings, one valid one not) cannot arise: validity is a function of the string
			out = append(out, subst[i])
			j++
		}
	}
	return out
}

func cmdReplay(args []string) int {
	fs := flag.NewFlagSet("replay", flag.ExitOnError)
	prop := fs.String("prop", "", "property id the mismatches are attributed to")
	in := fs.String("in", "-", "TLC stdout (records are lines starting with \"{ )")
	logPath := fs.String("log", "", "where non-record lines of TLC's output go")
	out := fs.String("out", "", "summary JSON")
	seed := fs.Int64("seed", 1, "seed for OTHER-byte substitution")
	workers := fs.Int("workers", 16, "")
	reps := fs.Int("reps", 1, "substitution rounds for records containing OTHER")
	allVar := fs.Bool("allvariants", false, "token space: all four renderings per sequence (thorough)")
	callsPath := fs.String("calls", "", "concurrent workload (JSON) for sched records")
	_ = fs.Parse(args)

	t := loadTables()
	r := &replayer{prop: *prop, anchor: t.Active[0], byKind: map[string]int64{}, tallies: map[string]int{}, accepted: map[string]bool{}}
	r.allVariants = *allVar
	if *callsPath != "" {
		b, err := os.ReadFile(*callsPath)
		if err != nil {
			fmt.Fprintln(os.Stderr, err)
			return 2
		}
		var w ConcWorkload
		if err := json.Unmarshal(b, &w); err != nil {
			fmt.Fprintln(os.Stderr, err)
			return 2
		}
		r.conc = &w
		m := newSharedMem(w.Mem)
		for _, c := range w.Calls {
			r.concSeq = append(r.concSeq, runCall(c, m))
		}
	}
	for _, id := range t.Active {
		if id == "MIT" {
			r.anchor = id
		}
	}

	var src *os.File = os.Stdin
	if *in != "-" {
		f, err := os.Open(*in)
		if err != nil {
			fmt.Fprintln(os.Stderr, err)
			return 2
		}
		defer f.Close()
		src = f
	}
	var logw *bufio.Writer
	if *logPath != "" {
		f, err := os.Create(*logPath)
		if err != nil {
			fmt.Fprintln(os.Stderr, err)
			return 2
		}
		defer f.Close()
		logw = bufio.NewWriter(f)
		defer logw.Flush()
	}

	lines := make(chan string, 4096)
	var wg sync.WaitGroup
	var decodeErrs int64
	for w := 0; w < *workers; w++ {
		wg.Add(1)
		go func(w int) {
			defer wg.Done()
			rng := rand.New(rand.NewSource(*seed*1000 + int64(w)))
			var calls, recs, nontriv int64
			kinds := map[string]int64{}
			var samples []json.RawMessage
			for ln := range lines {
				var inner string
				if err := json.Unmarshal([]byte(ln), &inner); err != nil {
					r.mu.Lock()
					decodeErrs++
					r.mu.Unlock()
					continue
				}
				var rec Rec
				if err := json.Unmarshal([]byte(inner), &rec); err != nil {
					r.mu.Lock()
					decodeErrs++
					r.mu.Unlock()
					continue
				}
				n := 1
				if strings.Contains(inner, "#") {
					n = *reps
				}
				for i := 0; i < n; i++ {
					c, nt := r.checkRec(&rec, rng)
					calls += int64(c)
					if nt && i == 0 {
						nontriv++
					}
				}
				recs++
				if rec.Tag != "" && rec.K != "tally" {
					kinds[rec.K+":"+rec.Tag]++
				} else {
					kinds[rec.K]++
				}
				if len(samples) < 3 && rec.K != "tally" {
					samples = append(samples, json.RawMessage(inner))
				}
			}
			r.mu.Lock()
			r.calls += calls
			r.recs += recs
			r.nontrivial += nontriv
			for k, v := range kinds {
				r.byKind[k] += v
			}
			if len(r.samples) < 6 {
				r.samples = append(r.samples, samples...)
			}
			r.mu.Unlock()
		}(w)
	}

	sc := bufio.NewScanner(src)
	sc.Buffer(make([]byte, 1<<20), 1<<26)
	for sc.Scan() {
		ln := sc.Text()
		if strings.HasPrefix(ln, "\"{") {
			lines <- ln
		} else if logw != nil {
			logw.WriteString(ln)
			logw.WriteByte('\n')
		}
	}
	close(lines)
	wg.Wait()
	tokSeqs := int64(0)
	if r.tokCfg != nil {
		tokSeqs = r.replayTokenSpace(t, *seed, *workers)
	}

	sort.Slice(r.mism, func(i, j int) bool {
		a, _ := json.Marshal(r.mism[i])
		b, _ := json.Marshal(r.mism[j])
		return string(a) < string(b)
	})
	summary := map[string]interface{}{
		"property": *prop, "records": r.recs, "calls": r.calls, "byKind": r.byKind,
		"nontrivial": r.nontrivial, "mismatches": r.mism, "mismatchCount": r.nMism,
		"decodeErrors": decodeErrs, "samples": r.samples, "tallies": r.tallies, "seed": *seed, "tokenSequences": tokSeqs, "accepted": len(r.accepted), "costs": r.costs,
	}
	b, _ := json.Marshal(summary)
	if *out != "" {
		if err := os.WriteFile(*out, b, 0o644); err != nil {
			fmt.Fprintln(os.Stderr, err)
			return 2
		}
	} else {
		os.Stdout.Write(b)
	}
	if decodeErrs > 0 {
		return 2
	}
	return 0
}
