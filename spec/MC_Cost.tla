------------------------------- MODULE MC_Cost ------------------------------
(***************************************************************************)
(* Cost of the expansion design per input family (C14).                    *)
(*   LawInv   for small n the closed-form laws equal DnfAlts / DnfCells of *)
(*            the tree the model's parser builds from the family's text    *)
(*   PolyLaw  (reported, not enforced) cells <= 4 * terms^Degree           *)
(* PolyLaw fails for AndOfOrs (n * 2^n cells): the exponential growth is   *)
(* a property of the DESIGN, found by the model; the measurement of the    *)
(* real code then shows it is real.  Emitted: one record per (family,      *)
(* size) with the text, for measurement in a watched subprocess.           *)
(***************************************************************************)
EXTENDS Families, MC_Cost_P

VARIABLES vFamily, vN

Init == vFamily \in FamilyNames /\ vN = 0
Poly(f, n) == LawCells(f, n) <= 4 * Terms(f, n) ^ Degree
\* a family is measured at the large sizes only if its law stays polynomial on SmallN and three probe sizes
IsPoly(f) == \A n \in SmallN \cup {12, 16, 20} : Poly(f, n)
SizesFor(f) == IF IsPoly(f) THEN {Sizes[x] : x \in DOMAIN Sizes} ELSE {SizesExp[x] : x \in DOMAIN SizesExp}
Next == vN = 0 /\ vN' \in (SmallN \cup SizesFor(vFamily)) /\ vFamily' = vFamily
Spec == Init /\ [][Next]_<<vFamily, vN>>

LawInv == (vN \in SmallN) =>
            LET p == Parse(FamilyText(vFamily, vN)) IN
            /\ p.ok
            /\ DnfAlts(p.node) = LawAlts(vFamily, vN)
            /\ DnfCells(p.node) = LawCells(vFamily, vN)
            /\ Cardinality(Leaves(p.node)) = Terms(vFamily, vN)

Emit == (vN > 0 /\ vN \in SizesFor(vFamily)) =>
        PrintT(ToJson([k |-> "cost", family |-> vFamily, n |-> vN, e |-> FamilyText(vFamily, vN),
                       cells |-> LawCells(vFamily, vN), alts |-> LawAlts(vFamily, vN), nterms |-> Terms(vFamily, vN),
                       poly |-> IsPoly(vFamily)]))
=============================================================================
