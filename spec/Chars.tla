------------------------------- MODULE Chars -------------------------------
(***************************************************************************)
(* Character-level helpers over TLC strings.  TLC strings support Len,     *)
(* \o and SubSeq; a "character" is a string of length one.                 *)
(*                                                                         *)
(* The alphabet of the library's scanner has five classes:                 *)
(*   space " ", identifier characters [A-Za-z0-9-.], the operator          *)
(*   characters ( ) : +, and everything else.  Every byte outside the      *)
(*   first three classes behaves identically in the scanner (it can start  *)
(*   no token), so the model has ONE such symbol, OTHER, written "#".  The *)
(*   conformance harness substitutes concrete foreign bytes (>= 0x80,      *)
(*   control bytes, tab, newline, '_', ...) for it.                        *)
(***************************************************************************)
EXTENDS Naturals, Sequences, TLC

UpperStr == "ABCDEFGHIJKLMNOPQRSTUVWXYZ"
LowerStr == "abcdefghijklmnopqrstuvwxyz"
DigitStr == "0123456789"

CharAt(s, i) == SubSeq(s, i, i)
CharsOf(s)   == {CharAt(s, i) : i \in 1..Len(s)}

UpperSet == CharsOf(UpperStr)
LowerSet == CharsOf(LowerStr)
DigitSet == CharsOf(DigitStr)
IdChar   == TLCEval(UpperSet \cup LowerSet \cup DigitSet \cup {"-", "."})
OtherCh  == "#"

LowerOf == TLCEval([c \in UpperSet |-> CharAt(LowerStr, CHOOSE i \in 1..26 : CharAt(UpperStr, i) = c)])
UpperOf == TLCEval([c \in LowerSet |-> CharAt(UpperStr, CHOOSE i \in 1..26 : CharAt(LowerStr, i) = c)])
DigitVal == TLCEval([c \in DigitSet |-> (CHOOSE i \in 1..10 : CharAt(DigitStr, i) = c) - 1])

LowerChar(c) == IF c \in UpperSet THEN LowerOf[c] ELSE c
UpperChar(c) == IF c \in LowerSet THEN UpperOf[c] ELSE c

RECURSIVE LowerFrom(_, _), UpperFrom(_, _)
LowerFrom(s, i) == IF i > Len(s) THEN "" ELSE LowerChar(CharAt(s, i)) \o LowerFrom(s, i + 1)
UpperFrom(s, i) == IF i > Len(s) THEN "" ELSE UpperChar(CharAt(s, i)) \o UpperFrom(s, i + 1)

ToLower(s) == LowerFrom(s, 1)
ToUpper(s) == UpperFrom(s, 1)

\* alternate case, starting with upper or lower depending on k (used for "mixed" spellings)
RECURSIVE MixFrom(_, _, _)
MixFrom(s, i, k) == IF i > Len(s) THEN ""
                    ELSE (IF (i + k) % 2 = 0 THEN UpperChar(CharAt(s, i)) ELSE LowerChar(CharAt(s, i)))
                         \o MixFrom(s, i + 1, k)
MixCase(s, k) == MixFrom(s, 1, k)

HasPrefixAt(s, p, pre) == p + Len(pre) - 1 <= Len(s) /\ SubSeq(s, p, p + Len(pre) - 1) = pre
HasPrefix(s, pre)      == HasPrefixAt(s, 1, pre)
HasSuffix(s, suf)      == Len(s) >= Len(suf) /\ SubSeq(s, Len(s) - Len(suf) + 1, Len(s)) = suf
DropSuffix(s, n)       == SubSeq(s, 1, Len(s) - n)

\* first position >= p whose character is not in C (Len(s)+1 if none)
RECURSIVE SpanEnd(_, _, _)
SpanEnd(s, p, C) == IF p > Len(s) \/ CharAt(s, p) \notin C THEN p ELSE SpanEnd(s, p + 1, C)

\* first position >= p holding character c, 0 if none
RECURSIVE IndexFrom(_, _, _)
IndexFrom(s, p, c) == IF p > Len(s) THEN 0 ELSE IF CharAt(s, p) = c THEN p ELSE IndexFrom(s, p + 1, c)

\* split on a one-character separator: sequence of (possibly empty) strings
RECURSIVE SplitFrom(_, _, _)
SplitFrom(s, p, c) == LET k == IndexFrom(s, p, c) IN
                      IF k = 0 THEN <<SubSeq(s, p, Len(s))>>
                      ELSE <<SubSeq(s, p, k - 1)>> \o SplitFrom(s, k + 1, c)
Split(s, c) == SplitFrom(s, 1, c)

RECURSIVE JoinFrom(_, _, _)
JoinFrom(seq, i, sep) == IF i > Len(seq) THEN ""
                         ELSE IF i = Len(seq) THEN seq[i]
                         ELSE seq[i] \o sep \o JoinFrom(seq, i + 1, sep)
Join(seq, sep) == JoinFrom(seq, 1, sep)

RECURSIVE Repeat(_, _)
Repeat(s, n) == IF n = 0 THEN "" ELSE s \o Repeat(s, n - 1)

AllIn(s, C) == \A i \in 1..Len(s) : CharAt(s, i) \in C
=============================================================================
