------------------------------- MODULE Lexer -------------------------------
(***************************************************************************)
(* The scanner (spdxexp/scan.go) as a character-level step machine.        *)
(*                                                                         *)
(* State  [src, pos, toks, err, shift, amb]                                *)
(*   src    the CALLER's string (never rewritten in the model)             *)
(*   pos    1-based position of the next unread character of src           *)
(*   toks   tokens produced so far, each [c |-> class, v |-> value]        *)
(*          classes: "L" license id, "E" exception id, "LR", "DR" and the  *)
(*          operators "WITH" "AND" "OR" "(" ")" ":" "+"                    *)
(*   err    [kind, off, lex]; kind "none" while scanning succeeds          *)
(*   shift  how far the code's private buffer index lags behind pos (only  *)
(*          non-zero under the historical deviation, see Dev)              *)
(*   amb    reasons why the input is outside the properties' vocabulary    *)
(*          (reading decisions R1-R3 of DESIGN.md); the machine still      *)
(*          models what the code does there, but no oracle is asserted     *)
(*                                                                         *)
(* One LexStep = one iteration of scan()'s loop = skipWhitespace followed  *)
(* by one parseToken attempt chain: operator, DocumentRef-, LicenseRef-,   *)
(* id + normalizeLicense.  Error offsets are 0-based byte offsets into     *)
(* src, as the library reports them.                                       *)
(***************************************************************************)
EXTENDS Tables

CONSTANT Dev   \* set of named historical deviations; {} = intended behaviour

OpList == <<"WITH", "AND", "OR", "(", ")", ":", "+">>   \* the code's order of attempts
OpWords == {"WITH", "AND", "OR"}

NoErr == [kind |-> "none", off |-> 0, lex |-> ""]
MkErr(k, o, l) == [kind |-> k, off |-> o, lex |-> l]
Tok(c, v) == [c |-> c, v |-> v]

LexInit(s) == [src |-> s, pos |-> 1, toks |-> <<>>, err |-> NoErr, shift |-> 0, amb |-> {}]

LexDone(st) == st.err.kind # "none" \/ SpanEnd(st.src, st.pos, {" "}) > Len(st.src)

\* offset as the code reports it: caller-relative unless the deviation is on
Reported(st, off) == IF "OffsetsInRewrittenBuffer" \in Dev THEN off - st.shift ELSE off

Fail(st, k, off, l) == [st EXCEPT !.err = MkErr(k, Reported(st, off), l)]
Push(st, tk, newpos) == [st EXCEPT !.toks = Append(@, tk), !.pos = newpos]

OperatorAt(s, p) == LET hits == {i \in DOMAIN OpList : HasPrefixAt(s, p, OpList[i])} IN
                    IF hits = {} THEN "" ELSE OpList[CHOOSE i \in hits : \A j \in hits : i <= j]

Lookup(low)  == IF low \in DOMAIN ActiveFold THEN Tok("L", ActiveFold[low])
                ELSE IF low \in DOMAIN ExcFold THEN Tok("E", ExcFold[low])
                ELSE Tok("none", "")
Found(tk) == tk.c # "none"

(* normalizeLicense: id is the maximal id run SubSeq(src, p, e-1).         *)
ReadId(st, p) ==
  LET s   == st.src
      e   == SpanEnd(s, p, IdChar)
      id  == SubSeq(s, p, e - 1)
      low == ToLower(id)
      direct   == Lookup(low)
      onlyBase == IF HasSuffix(id, "-only") THEN Lookup(ToLower(DropSuffix(id, 5))) ELSE Tok("none", "")
      nextPlus == e <= Len(s) /\ CharAt(s, e) = "+"
      folded   == IF nextPlus THEN Lookup(low \o "-or-later") ELSE Tok("none", "")
      laterBase == IF HasSuffix(id, "-or-later") THEN Lookup(ToLower(DropSuffix(id, 9))) ELSE Tok("none", "")
  IN
  IF e = p THEN Fail(st, "missing-id", p - 1, "")
  ELSE IF Found(direct) THEN Push(st, direct, e)
  ELSE IF Found(onlyBase) THEN
       [Push(st, onlyBase, e) EXCEPT !.amb = @ \cup (IF onlyBase.c = "E" THEN {"suffix-on-exception"} ELSE {})]
  ELSE IF Found(folded) THEN Push(st, folded, e + 1)
  ELSE IF Found(laterBase) THEN
       \* the code rewrites its buffer to "<base>+<rest>" and re-reads the '+': two tokens
       LET drop == "DropCharAfterOrLater" \in Dev /\ e <= Len(s)
           st2  == [st EXCEPT !.toks = @ \o <<laterBase, Tok("+", "+")>>,
                              !.pos  = IF drop THEN e + 1 ELSE e,
                              !.shift = @ + 8 + (IF drop THEN 1 ELSE 0),
                              !.amb = @ \cup (IF laterBase.c = "E" THEN {"suffix-on-exception"} ELSE {})]
       IN st2
  ELSE IF low \in DOMAIN DepFold THEN Push(st, Tok("L", DepFold[low]), e)
  ELSE [Fail(st, "unknown-id", p - 1, id) EXCEPT
           !.amb = @ \cup (IF (HasSuffix(id, "-only") /\ ToLower(DropSuffix(id, 5)) \in DOMAIN DepFold)
                              \/ (HasSuffix(id, "-or-later") /\ ToLower(DropSuffix(id, 9)) \in DOMAIN DepFold)
                           THEN {"suffix-on-deprecated"} ELSE {})]

ReadRef(st, p, cls, n) ==
  LET s == st.src
      e == SpanEnd(s, p + n, IdChar)
  IN IF e = p + n THEN Fail(st, "missing-id", p + n - 1, "")
     ELSE Push(st, Tok(cls, SubSeq(s, p + n, e - 1)), e)

ReadOp(st, p, op) ==
  LET s == st.src
      q == p + Len(op)
  IN IF op = "+" /\ p >= 2 /\ CharAt(s, p - 1) = " "
     THEN [st EXCEPT !.err = MkErr("space-before-plus", 0, "")]   \* the message cites no offset
     ELSE [Push(st, Tok(op, op), q) EXCEPT
             !.amb = @ \cup (IF op \in OpWords /\ q <= Len(s) /\ CharAt(s, q) \in IdChar
                             THEN {"glued-operator"} ELSE {})]

\* one iteration of the scan loop (enabled while ~LexDone(st))
LexStep(st) ==
  LET s  == st.src
      p  == SpanEnd(s, st.pos, {" "})
      op == OperatorAt(s, p)
  IN IF op # "" THEN ReadOp(st, p, op)
     ELSE IF HasPrefixAt(s, p, "DocumentRef-") THEN ReadRef(st, p, "DR", 12)
     ELSE IF HasPrefixAt(s, p, "LicenseRef-") THEN ReadRef(st, p, "LR", 11)
     ELSE ReadId(st, p)

RECURSIVE LexRun(_)
LexRun(st) == IF LexDone(st) THEN st ELSE LexRun(LexStep(st))

Lex(s) == LexRun(LexInit(s))

(* Double "or later" (R2): a '+' token right after a license token whose   *)
(* value already ends in -or-later, or right after another '+'.            *)
DoublePlus(toks) == \E i \in 1..(Len(toks) - 1) :
                       /\ toks[i + 1].c = "+"
                       /\ \/ toks[i].c = "+"
                          \/ (toks[i].c = "L" /\ HasSuffix(toks[i].v, "-or-later"))
LexAmb(st) == st.amb \cup (IF DoublePlus(st.toks) THEN {"double-plus"} ELSE {})
=============================================================================
