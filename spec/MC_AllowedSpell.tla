--------------------------- MODULE MC_AllowedSpell --------------------------
(***************************************************************************)
(* The allowed list as a set (C07).  For every expression of Exprs and     *)
(* every non-empty subset of Universe (the base list), the list is         *)
(* transformed by                                                          *)
(*   Swap     exchange two neighbours  (=> every permutation)              *)
(*   Dup      insert a copy of an entry at the front or at the end         *)
(*   Respell  rewrite one entry: letter case of its listed ids (lower,     *)
(*            upper, alternating), a space before and after, one or two    *)
(*            pairs of parentheses                                         *)
(* SetInv: every transformed entry is still a valid single term and the    *)
(* list denotes the same SET of terms as the base list (a scanner/parser   *)
(* property: case, blanks and parentheses do not change the term).         *)
(* VerdictInv: the model's verdict is the base list's verdict.             *)
(* Each state is emitted and replayed through the real Satisfies.          *)
(***************************************************************************)
EXTENDS Render, MC_AllowedSpell_P

VARIABLES vE, vBase, vList, vDup, vResp, vWant   \* vWant: the model's result for the base list (computed once)

NU == Len(Universe)
InMask(m, j) == (m \div (2^(j - 1))) % 2 = 1
RECURSIVE SubFrom(_, _)
SubFrom(m, j) == IF j > NU THEN <<>> ELSE (IF InMask(m, j) THEN <<Universe[j]>> ELSE <<>>) \o SubFrom(m, j + 1)

IsListedWord(w) == LET x == ToLower(w) IN x \in DOMAIN ActiveFold \/ x \in DOMAIN DepFold \/ x \in DOMAIN ExcFold
CaseWord(w, mode) ==
  LET plus == HasSuffix(w, "+")
      core == IF plus THEN DropSuffix(w, 1) ELSE w
      tail == IF plus THEN "+" ELSE ""
  IN IF ~IsListedWord(core) THEN w
     ELSE (IF mode = "lower" THEN ToLower(core) ELSE IF mode = "upper" THEN ToUpper(core) ELSE MixCase(core, MixK)) \o tail
RECURSIVE CaseWords(_, _, _)
CaseWords(ws, n, mode) == IF n > Len(ws) THEN "" ELSE (IF n = 1 THEN "" ELSE " ") \o CaseWord(ws[n], mode) \o CaseWords(ws, n + 1, mode)
Respelled(t, rule) ==
  IF rule \in {"lower", "upper", "mixed"} THEN CaseWords(Split(t, " "), 1, rule)
  ELSE IF rule = "pad" THEN " " \o t \o "  "
  ELSE IF rule = "paren" THEN "(" \o t \o ")"
  ELSE "( (" \o t \o ") )"
Rules == {"lower", "upper", "mixed", "pad", "paren", "paren2"}

Init == /\ vE \in DOMAIN Exprs
        /\ \E m \in 1..(2^NU - 1) : vBase = SubFrom(m, 1)
        /\ vList = vBase /\ vDup = 0 /\ vResp = 0
        /\ vWant = [r |-> SatisfiesSpec(Exprs[vE], vBase), posdep |-> ~SatPositionIndependent(Exprs[vE], vBase)]
Swap == /\ vDup = 0 /\ vResp = 0
        /\ \E n \in 1..(Len(vList) - 1) :
              vList' = [vList EXCEPT ![n] = vList[n + 1], ![n + 1] = vList[n]]
        /\ UNCHANGED <<vE, vBase, vDup, vResp, vWant>>
Dup  == /\ vDup < MaxDup /\ vResp = 0
        /\ \E n \in DOMAIN vList, at \in {0, Len(vList)} :
              vList' = SubSeq(vList, 1, at) \o <<vList[n]>> \o SubSeq(vList, at + 1, Len(vList))
        /\ vDup' = vDup + 1
        /\ UNCHANGED <<vE, vBase, vResp, vWant>>
Respell == /\ vResp < MaxResp
           /\ \E n \in DOMAIN vList, r \in Rules :
                 /\ Respelled(vList[n], r) # vList[n]
                 /\ vList' = [vList EXCEPT ![n] = Respelled(vList[n], r)]
           /\ vResp' = vResp + 1
           /\ UNCHANGED <<vE, vBase, vDup, vWant>>
Next == Swap \/ Dup \/ Respell
Spec == Init /\ [][Next]_<<vE, vBase, vList, vDup, vResp, vWant>>

SetInv == /\ \A n \in DOMAIN vList : Valid(vList[n]) /\ ~Compound(vList[n]) /\ InOracle(vList[n])
          /\ AllowedTerms(vList) = AllowedTerms(vBase)
VerdictInv == SatisfiesSpec(Exprs[vE], vList) = vWant.r

Emit == PrintT(ToJson([k |-> "lists", e |-> Exprs[vE], ls |-> <<vList>>, sat |-> vWant.r.sat, err |-> vWant.r.err,
                       posdep |-> vWant.posdep]))
ASSUME \A n \in DOMAIN Universe : Valid(Universe[n]) /\ ~Compound(Universe[n]) /\ InOracle(Universe[n])
ASSUME \A n \in DOMAIN Exprs : Valid(Exprs[n]) /\ InOracle(Exprs[n])
ASSUME LowFormsAgree
=============================================================================
