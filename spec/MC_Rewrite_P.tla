---------------------------- MODULE MC_Rewrite_P ----------------------------
\* Parameters of MC_Rewrite (overwritten by the check); leaf texts and universe come from MC_Tree_P
StartLeaves == 2     \* start from every tree with at most this many leaves
MaxSteps    == 1     \* length of the rewrite chain
MaxSize     == 6     \* do not grow trees beyond this many leaves
=============================================================================
