----------------------------- MODULE MC_Pairs_P ----------------------------
\* Parameters of MC_Pairs (overwritten by the check): term texts and the blocks of the product to explore.
TextsA == <<"GPL-2.0", "GPL-2.0+", "GPL-3.0-only", "MIT", "LicenseRef-a">>
TextsB == <<"GPL-2.0-only", "GPL-1.0+", "GPL-3.0", "MIT+", "DocumentRef-d:LicenseRef-a", "LicenseRef-a">>
Blocks == <<<<1, 5, 1, 6>>>>
First == "0BSD"
Last == "zlib-acknowledgement"
PairExc == "Classpath-exception-2.0"
=============================================================================
