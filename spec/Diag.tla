--------------------------------- MODULE Diag -------------------------------
(***************************************************************************)
(* The diagnostic a malformed input gets (beyond the listed properties:    *)
(* C15 only speaks about offsets and lexemes).  The parser's error paths   *)
(* of parse.go, one operator per Go function, returning the message the    *)
(* code produces; the scanner's three messages; the two messages of        *)
(* Satisfies about its allowed list.  Compared with the text of every      *)
(* recorded error as a drift note (reason "diagnostic"), never a verdict.  *)
(***************************************************************************)
EXTENDS Api

OkMsg == ""
M_EMPTY    == "parse error - cannot parse empty string"
M_NOTOK    == "no tokens to parse"
M_SYNTAX   == "syntax error"
M_CLOSE    == "close parenthesis does not have a matching open parenthesis"
M_NOOP     == "licenses or expressions are not separated by an operator"
M_OPEN     == "open parenthesis does not have a matching close parenthesis"
M_NONE     == "expected node, but found none"
M_COLON    == "expected ':' after 'DocumentRef-...'"
M_LREF     == "expected 'LicenseRef-...' after 'DocumentRef-...'"
M_EXC      == "expected exception after 'WITH'"
M_SPACE    == "unexpected space before +"
M_EMPTYLST == "allowedList requires at least one element, but is empty"
M_COMPOUND == "expressions are not supported in the allowedList"
Starts(x)  == "expression starts with " \o x
FoundMsg(x) == "expected license or expression, but found " \o x
After(x)   == "expected expression following " \o x \o ", but found none"

\* results: [msg, next, isnil]  (msg # "" = error; isnil = the Go function returned nil without error)
DR(m, n, z) == [msg |-> m, next |-> n, isnil |-> z]

DWith(t, i) == IF Cls(t, i) # "WITH" THEN DR("", i, TRUE)
               ELSE IF Cls(t, i + 1) = "E" THEN DR("", i + 2, FALSE) ELSE DR(M_EXC, i + 1, TRUE)
DLicense(t, i) ==
  IF Cls(t, i) # "L" THEN DR("", i, TRUE)
  ELSE LET j == IF Cls(t, i + 1) = "+" THEN i + 2 ELSE i + 1 IN
       IF j > Len(t) THEN DR("", j, FALSE)
       ELSE LET w == DWith(t, j) IN IF w.msg # "" THEN w ELSE DR("", w.next, FALSE)
DLicenseRef(t, i) ==
  IF i > Len(t) THEN DR("", i, TRUE)
  ELSE IF Cls(t, i) = "DR" THEN
          IF Cls(t, i + 1) # ":" THEN DR(M_COLON, i + 1, TRUE)
          ELSE IF Cls(t, i + 2) = "LR" THEN DR("", i + 3, FALSE) ELSE DR(M_LREF, i + 2, TRUE)
  ELSE IF Cls(t, i) = "LR" THEN DR("", i + 1, FALSE)
  ELSE DR("", i, TRUE)

RECURSIVE DExpr(_, _), DAnd(_, _), DAtom(_, _), DParen(_, _)
DParen(t, i) ==
  IF Cls(t, i) # "(" THEN DR("", i, TRUE)
  ELSE LET r == DExpr(t, i + 1) IN
       IF r.msg # "" THEN r
       ELSE IF r.next > Len(t) THEN DR(M_OPEN, r.next, TRUE)
       ELSE IF Cls(t, r.next) = ")" THEN DR("", r.next + 1, r.isnil) ELSE DR(M_OPEN, r.next, TRUE)
DAtom(t, i) ==
  LET p == DParen(t, i) IN
  IF p.msg # "" THEN p ELSE IF ~p.isnil THEN p
  ELSE LET r == DLicenseRef(t, i) IN
       IF r.msg # "" THEN r ELSE IF ~r.isnil THEN r
       ELSE LET l == DLicense(t, i) IN
            IF l.msg # "" THEN l ELSE IF ~l.isnil THEN l
            ELSE IF i <= Len(t) THEN
                    IF Cls(t, i) = ")" THEN DR(IF i = 1 THEN Starts("close parenthesis") ELSE FoundMsg("close parenthesis"), i + 1, TRUE)
                    ELSE IF Cls(t, i) = "OR" THEN DR(IF i = 1 THEN Starts("OR") ELSE FoundMsg("OR"), i + 1, TRUE)
                    ELSE IF Cls(t, i) = "AND" THEN DR(IF i = 1 THEN Starts("AND") ELSE FoundMsg("AND"), i + 1, TRUE)
                    ELSE DR(M_SYNTAX, i, TRUE)
                 ELSE DR(M_NONE, i, TRUE)
DAnd(t, i) ==
  LET l == DAtom(t, i) IN
  IF l.msg # "" \/ l.isnil THEN l
  ELSE IF l.next > Len(t) \/ Cls(t, l.next) # "AND" THEN l
  ELSE IF l.next + 1 > Len(t) THEN DR(After("AND"), l.next + 1, TRUE)
  ELSE LET r == DAnd(t, l.next + 1) IN
       IF r.msg # "" THEN r ELSE IF r.isnil THEN DR(After("AND"), r.next, TRUE) ELSE r
DExpr(t, i) ==
  LET l == DAnd(t, i) IN
  IF l.msg # "" \/ l.isnil THEN l
  ELSE IF l.next > Len(t) \/ Cls(t, l.next) # "OR" THEN l
  ELSE IF l.next + 1 > Len(t) THEN DR(After("OR"), l.next + 1, TRUE)
  ELSE LET r == DExpr(t, l.next + 1) IN
       IF r.msg # "" THEN r ELSE IF r.isnil THEN DR(After("OR"), r.next, TRUE) ELSE r

\* parseTokens
DTokens(t) ==
  IF Len(t) = 0 THEN M_NOTOK
  ELSE LET r == DExpr(t, 1) IN
       IF r.msg # "" THEN r.msg
       ELSE IF r.isnil THEN M_SYNTAX
       ELSE IF r.next <= Len(t) THEN
               IF Cls(t, r.next) = ")" THEN M_CLOSE
               ELSE LET l == DLicense(t, r.next) IN IF l.msg = "" /\ ~l.isnil THEN M_NOOP ELSE M_SYNTAX
       ELSE OkMsg

ToStr(n) == ToString(n)
\* parse(source): the whole message
DiagOf(s) ==
  IF Len(s) = 0 THEN M_EMPTY
  ELSE LET st == Lex(s) IN
       IF st.err.kind = "space-before-plus" THEN M_SPACE
       ELSE IF st.err.kind = "missing-id" THEN "expected id at offset " \o ToStr(st.err.off)
       ELSE IF st.err.kind = "unknown-id" THEN "unknown license '" \o st.err.lex \o "' at offset " \o ToStr(st.err.off)
       ELSE DTokens(st.toks)

\* the message of Satisfies / ExtractLicenses ("" = no error)
RECURSIVE FirstAllowedMsg(_, _)
FirstAllowedMsg(a, n) == IF n > Len(a) THEN OkMsg
                         ELSE IF DiagOf(a[n]) # OkMsg THEN DiagOf(a[n])
                         ELSE IF Compound(a[n]) THEN M_COMPOUND
                         ELSE FirstAllowedMsg(a, n + 1)
SatisfiesMsg(e, a) == IF DiagOf(e) # OkMsg THEN DiagOf(e)
                      ELSE IF Len(a) = 0 THEN M_EMPTYLST
                      ELSE FirstAllowedMsg(a, 1)
=============================================================================
