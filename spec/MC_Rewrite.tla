----------------------------- MODULE MC_Rewrite -----------------------------
(***************************************************************************)
(* Boolean-algebra rewrites (C10).  From every tree with at most           *)
(* StartLeaves leaves, chains of at most MaxSteps rewrites, each applied   *)
(* at any node:                                                            *)
(*   commute      a op b        ->  b op a                                 *)
(*   assoc        a op (b op c) <-> (a op b) op c                          *)
(*   idem         a             ->  a op a                                 *)
(*   absorb       a             ->  a OR (a AND x),  a AND (a OR x)        *)
(*   distribute   a AND (b OR c) <-> (a AND b) OR (a AND c)   (both sides) *)
(* plus three renderings of the result (minimal parentheses, every node    *)
(* parenthesised, widened blanks).                                         *)
(*                                                                         *)
(* RuleInv guards the rules themselves: the rewritten tree has the same    *)
(* verdict as the original under every subset of Universe (and the same    *)
(* terms unless absorb was used).  CompInv: Sat("(E) AND (F)") = Sat(E) /\ *)
(* Sat(F), likewise OR, for the original and the rewritten tree.           *)
(* Emitted: all renderings of the rewritten tree with the ORIGINAL's       *)
(* verdict vector and terms; the real code must give those.                *)
(***************************************************************************)
EXTENDS TreeOps, MC_Rewrite_P

VARIABLES vOrig, vCur, vSteps, vKeeps   \* vKeeps: the chain used only term-preserving rules

RECURSIVE TreesWith(_)
\* all label trees with exactly n leaves
TreesWith(n) == IF n = 1 THEN {LLeaf(k) : k \in 1..NL}
                ELSE UNION {{Bin(o, a, b) : o \in {"and", "or"}, a \in TreesWith(j), b \in TreesWith(n - j)} : j \in 1..(n - 1)}
StartTrees == UNION {TreesWith(n) : n \in 1..StartLeaves}

\* rewrites at the root: set of <<tree, keepsTerms>>
RootRewrites(t) ==
  (IF t.op # "leaf" THEN {<<Bin(t.op, t.r, t.l), TRUE>>} ELSE {})
  \cup (IF t.op # "leaf" /\ t.r.op = t.op THEN {<<Bin(t.op, Bin(t.op, t.l, t.r.l), t.r.r), TRUE>>} ELSE {})
  \cup (IF t.op # "leaf" /\ t.l.op = t.op THEN {<<Bin(t.op, t.l.l, Bin(t.op, t.l.r, t.r)), TRUE>>} ELSE {})
  \cup {<<Bin(o, t, t), TRUE>> : o \in {"and", "or"}}
  \cup {<<Bin("or", t, Bin("and", t, LLeaf(k))), FALSE>> : k \in 1..NL}
  \cup {<<Bin("and", t, Bin("or", t, LLeaf(k))), FALSE>> : k \in 1..NL}
  \cup (IF t.op = "and" /\ t.r.op = "or" THEN {<<Bin("or", Bin("and", t.l, t.r.l), Bin("and", t.l, t.r.r)), TRUE>>} ELSE {})
  \cup (IF t.op = "and" /\ t.l.op = "or" THEN {<<Bin("or", Bin("and", t.l.l, t.r), Bin("and", t.l.r, t.r)), TRUE>>} ELSE {})
  \cup (IF t.op = "or" /\ t.l.op = "and" /\ t.r.op = "and" /\ t.l.l = t.r.l
        THEN {<<Bin("and", t.l.l, Bin("or", t.l.r, t.r.r)), TRUE>>} ELSE {})

RECURSIVE Rewrites(_)
Rewrites(t) == RootRewrites(t)
               \cup (IF t.op = "leaf" THEN {}
                     ELSE {<<Bin(t.op, x[1], t.r), x[2]>> : x \in Rewrites(t.l)} \cup {<<Bin(t.op, t.l, x[1]), x[2]>> : x \in Rewrites(t.r)})

Init == vOrig \in StartTrees /\ vCur = vOrig /\ vSteps = 0 /\ vKeeps = TRUE
Rewrite == /\ vSteps < MaxSteps
           /\ \E x \in Rewrites(vCur) :
                 /\ NLeaves(x[1]) <= MaxSize
                 /\ vCur' = x[1]
                 /\ vKeeps' = (vKeeps /\ x[2])
           /\ vSteps' = vSteps + 1
           /\ vOrig' = vOrig
Next == Rewrite
Spec == Init /\ [][Next]_<<vOrig, vCur, vSteps, vKeeps>>

RuleInv == /\ SameVerdicts(WithTerms(vCur), WithTerms(vOrig))
           /\ vKeeps => Leaves(WithTerms(vCur)) = Leaves(WithTerms(vOrig))
CompInv == \A m \in Masks :
             /\ Eval(Bin("and", WithTerms(vOrig), WithTerms(vCur)), TruthD[m]) = (Eval(WithTerms(vOrig), TruthD[m]) /\ Eval(WithTerms(vCur), TruthD[m]))
             /\ Eval(Bin("or", WithTerms(vOrig), WithTerms(vCur)), TruthD[m]) = (Eval(WithTerms(vOrig), TruthD[m]) \/ Eval(WithTerms(vCur), TruthD[m]))

\* widened blanks: two spaces around every operator, blanks inside parentheses
RECURSIVE RenderWide(_)
RenderWide(n) ==
  IF n.op = "leaf" THEN n.text
  ELSE LET side(m) == IF n.op = "and" /\ m.op = "or" THEN "( " \o RenderWide(m) \o " )" ELSE RenderWide(m)
       IN side(n.l) \o (IF n.op = "and" THEN "  AND  " ELSE "  OR  ") \o side(n.r)

RECURSIVE AndStr(_, _, _)
AndStr(a, b, m) == IF m > 2^NU - 1 THEN "" ELSE (IF Eval(WithTerms(a), TruthD[m]) /\ Eval(WithTerms(b), TruthD[m]) THEN "1" ELSE "0") \o AndStr(a, b, m + 1)
RECURSIVE OrStr(_, _, _)
OrStr(a, b, m) == IF m > 2^NU - 1 THEN "" ELSE (IF Eval(WithTerms(a), TruthD[m]) \/ Eval(WithTerms(b), TruthD[m]) THEN "1" ELSE "0") \o OrStr(a, b, m + 1)

Emit == LET tc == WithTexts(vCur) to == WithTexts(vOrig) IN
        /\ PrintT(ToJson([k |-> "satb", es |-> <<RenderMin(to), RenderMin(tc), RenderFull(tc), RenderWide(tc)>>,
                          u |-> Universe, v |-> VStrOf(vOrig, 1), valid |-> TRUE]))
        /\ vKeeps => PrintT(ToJson([k |-> "ext", e |-> RenderMin(tc), err |-> FALSE,
                                    terms |-> SetToSeqS({SetToSeqS(Spellings(t)) : t \in Leaves(WithTerms(vOrig))})]))
        \* the compositional form on real code: "(E) AND (F)" and "(E) OR (F)" with E = original, F = rewritten
        /\ PrintT(ToJson([k |-> "satb", es |-> <<"(" \o RenderMin(to) \o ") AND (" \o RenderMin(tc) \o ")">>,
                          u |-> Universe, v |-> AndStr(vOrig, vCur, 1), valid |-> TRUE]))
        /\ PrintT(ToJson([k |-> "satb", es |-> <<"(" \o RenderMin(to) \o ") OR (" \o RenderMin(tc) \o ")">>,
                          u |-> Universe, v |-> OrStr(vOrig, vCur, 1), valid |-> TRUE]))
=============================================================================
