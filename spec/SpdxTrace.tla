----------------------------- MODULE SpdxTrace -----------------------------
(***************************************************************************)
(* Trace validation (implementation -> specification).                     *)
(*                                                                         *)
(* trace.ndjson holds one event per completed call of an exported          *)
(* function of the REAL library, recorded by `harness drive` / `harness    *)
(* conc` at the call's return.  Each TraceCall step consumes one event and *)
(* requires it to be a step the specification allows: the observation      *)
(* recorded from the code must be the one Api.tla computes from the        *)
(* concrete argument strings (with the model's own character-level         *)
(* scanner, parser, evaluator and the shipped tables).                     *)
(*                                                                         *)
(* Calls carry no state from one to the next (that is property C13), so    *)
(* the only variables are the cursor vPos and the set of disagreeing events.  *)
(* A disagreement does not block: the whole trace is always consumed and   *)
(* every disagreement is reported with a reason, so that the harness can   *)
(* attribute it to the property that speaks about that observable.         *)
(***************************************************************************)
EXTENDS Api, Order, Diag

Trace == ndJsonDeserialize("trace.ndjson")

\* NB: state-variable names must not collide with any bound-variable name used in a constant
\* definition (TLC would silently stop caching those constants) - hence the v-prefix.
VARIABLES vPos, vMism
tvars == <<vPos, vMism>>

AllInOracle(strs) == \A i \in DOMAIN strs : InOracle(strs[i])

\* ---- expected error position (C15) for a call whose first failing string is s
OffsetClaim(s) == LET r == Parse(s) IN
                  IF r.err.kind \in {"unknown-id", "missing-id"} THEN <<TRUE, r.err.off, r.err.lex, r.err.kind>>
                  ELSE <<FALSE, 0, "", r.err.kind>>
OffsetOk(ev, s) == LET c == OffsetClaim(s) IN
                   c[1] => /\ ev.off = c[2]
                           /\ ev.off >= 0 /\ ev.off <= Len(s)
                           /\ (c[4] = "unknown-id" => ev.lex = c[3] /\ SubSeq(s, ev.off + 1, ev.off + Len(ev.lex)) = ev.lex)

\* first allowed entry that stringsToNodes rejects (0 if none)
FirstBad(a) == LET B == {i \in DOMAIN a : ~Valid(a[i]) \/ Compound(a[i])} IN
               IF B = {} THEN 0 ELSE CHOOSE i \in B : \A j \in B : i <= j

CheckSatisfies(ev) ==
  LET exp == SatisfiesSpec(ev.e, ev.a)
      inO == InOracle(ev.e) /\ AllInOracle(ev.a)
      posI == SatPositionIndependent(ev.e, ev.a)
      fb  == FirstBad(ev.a)
  IN   (IF ev.panic THEN {"panic"} ELSE {})
  \cup (IF ev.mut THEN {"mutated"} ELSE {})
  \cup (IF ~ev.panic /\ ev.err /\ ev.sat THEN {"result-with-error"} ELSE {})
  \cup (IF ~ev.panic /\ inO /\ ev.err # exp.err THEN {"validity"} ELSE {})
  \cup (IF ~ev.panic /\ inO /\ posI /\ ~exp.err /\ ~ev.err /\ ev.sat # exp.sat THEN {"verdict"} ELSE {})
  \cup (IF ~ev.panic /\ inO /\ ~posI /\ ~exp.err /\ ~ev.err /\ ev.sat # exp.sat THEN {"verdict-duplicate-position"} ELSE {})
  \cup (IF ~ev.panic /\ ev.err /\ inO /\
           ~(IF ~Valid(ev.e) THEN OffsetOk(ev, ev.e)
             ELSE IF fb > 0 /\ ~Valid(ev.a[fb]) THEN OffsetOk(ev, ev.a[fb]) ELSE TRUE)
        THEN {"offset"} ELSE {})

CheckValidate(ev) ==
  LET exp == ValidateSpec(ev.a)
      inO == AllInOracle(ev.a)
  IN   (IF ev.panic THEN {"panic"} ELSE {})
  \cup (IF ev.mut THEN {"mutated"} ELSE {})
  \cup (IF ~ev.panic /\ (ev.ok # (Len(ev.bad) = 0)) THEN {"validate-shape"} ELSE {})
  \cup (IF ~ev.panic /\ inO /\ (ev.ok # exp.ok \/ ev.bad # exp.invalid) THEN {"validity"} ELSE {})

\* every returned string denotes exactly one of the expression's terms, in an accepted spelling,
\* no term twice, none missing
ExtractOk(ev, exp) ==
  /\ ~ev.outnil \/ exp.terms = {}
  /\ \A i \in DOMAIN ev.out :
        LET r == Parse(ev.out[i]) IN
        /\ r.ok /\ r.node.op = "leaf"
        /\ r.node.term \in exp.terms
        /\ ev.out[i] \in Spellings(r.node.term)
  /\ {Parse(ev.out[i]).node.term : i \in DOMAIN ev.out} = exp.terms
  /\ Len(ev.out) = Cardinality(exp.terms)

CheckExtract(ev) ==
  LET exp == ExtractSpec(ev.e)
      inO == InOracle(ev.e)
  IN   (IF ev.panic THEN {"panic"} ELSE {})
  \cup (IF ~ev.panic /\ ev.err /\ ~ev.outnil THEN {"result-with-error"} ELSE {})
  \cup (IF ~ev.panic /\ inO /\ ev.err # exp.err THEN {"validity"} ELSE {})
  \cup (IF ~ev.panic /\ inO /\ ~ev.err /\ ~exp.err /\ ~ExtractOk(ev, exp) THEN {"extract"} ELSE {})
  \cup (IF ~ev.panic /\ inO /\ ev.err /\ exp.err /\ ~OffsetOk(ev, ev.e) THEN {"offset"} ELSE {})
  \* beyond the listed properties: the exact ORDER (Order.tla), judged for small expansions only, a drift note
  \cup (IF ~ev.panic /\ inO /\ ~ev.err /\ ~exp.err /\ ExtractOk(ev, exp) /\ DnfAlts(Parse(ev.e).node) <= 64
           /\ ev.out # ExtractOrder(Parse(ev.e).node) THEN {"extract-order"} ELSE {})

\* stage events (recorded through the hooks; empty when the harness was built without them) must spell
\* the path of the pipeline the specification prescribes for these arguments
CheckStages(ev) ==
  IF ev.panic \/ Len(ev.stages) = 0 THEN {}
  ELSE IF (ev.fn = "ValidateLicenses" /\ AllInOracle(ev.a)) \/ (ev.fn # "ValidateLicenses" /\ InOracle(ev.e) /\ AllInOracle(ev.a))
       THEN (IF ev.stages = StagesOf(ev.fn, ev.e, ev.a) THEN {} ELSE {"stage-sequence"})
       ELSE {}

\* the diagnostic text (drift note only); judged when the input is inside the vocabulary and free of foreign bytes
NoForeign(x) == \A n \in 1..Len(x) : CharAt(x, n) # OtherCh
CheckDiag(ev) ==
  IF ev.panic \/ ev.fn = "ValidateLicenses" \/ ~ev.err THEN {}
  ELSE IF ~(InOracle(ev.e) /\ AllInOracle(ev.a) /\ NoForeign(ev.e) /\ \A n \in DOMAIN ev.a : NoForeign(ev.a[n])) THEN {}
  ELSE LET want == IF ev.fn = "Satisfies" THEN SatisfiesMsg(ev.e, ev.a) ELSE DiagOf(ev.e) IN
       IF want # OkMsg /\ ev.msg # want THEN {"diagnostic"} ELSE {}

\* a call is a function of its arguments (C13): identical calls answer identically, and a result handed to the caller is
\* not changed by later calls
CheckPure(ev) == (IF ev.unstable > 0 THEN {"unstable-result"} ELSE {}) \cup (IF ev.alias THEN {"result-overwritten"} ELSE {})

Check(ev) == CheckDiag(ev) \cup CheckPure(ev) \cup (IF ev.fn = "Satisfies" THEN CheckSatisfies(ev)
              ELSE IF ev.fn = "ValidateLicenses" THEN CheckValidate(ev)
              ELSE IF ev.fn = "ExtractLicenses" THEN CheckExtract(ev)
              ELSE {"unknown-function"}) \cup CheckStages(ev)

TraceInit == vPos = 1 /\ vMism = {}

TraceCall == /\ vPos <= Len(Trace)
             /\ vMism' = vMism \cup {<<vPos, r>> : r \in Check(Trace[vPos])}
             /\ vPos' = vPos + 1

TraceNext == TraceCall
TraceSpec == TraceInit /\ [][TraceNext]_tvars

TraceDone == vPos = Len(Trace) + 1
\* printed once, in the final state; the harness maps indices back to events
Report == TraceDone => PrintT(<<"TRACEDONE", Len(Trace), vMism>>)

\* the whole trace was consumed (one state per event plus the initial state)
TraceAccepted == TLCGet("stats").diameter - 1 = Len(Trace)
=============================================================================
