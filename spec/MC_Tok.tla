------------------------------- MODULE MC_Tok ------------------------------
(***************************************************************************)
(* Token-level exploration: EVERY sequence of at most MaxLen tokens over   *)
(* the 11 token classes.                                                   *)
(*                                                                         *)
(* Checked in every state:                                                 *)
(*   GrammarInv   the descent (parse.go, transcribed) accepts exactly the  *)
(*                documented grammar (reference recogniser)       [C05]    *)
(*   TotalInv     the descent never needs a token past the end of the      *)
(*                stream (no PANIC outcome)                       [C03]    *)
(*   RoundTrip    scanning the rendered text (loose and tight spacing)     *)
(*                gives back exactly these tokens - ties the token level   *)
(*                to the character-level scanner                  [C05]    *)
(* Emitted: the accepted sequences; the harness enumerates all sequences   *)
(* itself, renders them the same way, runs the real ValidateLicenses /     *)
(* ExtractLicenses / Satisfies on each and compares with this set.         *)
(***************************************************************************)
EXTENDS Render

CONSTANTS MaxLen, LexL, LexE   \* concrete lexemes for the L and E classes (chosen from the shipped tables)
CONSTANTS LexLR, LexDR          \* the names of the LicenseRef / DocumentRef tokens ("a" / "d"; also operator words: a reference
                                \* may be NAMED AND, OR or WITH and is still a reference, never an operator)

VARIABLE vToks

Classes == {"L", "E", "LR", "DR", ":", "(", ")", "AND", "OR", "WITH", "+"}
ValOf(c) == IF c = "L" THEN LexL ELSE IF c = "E" THEN LexE
            ELSE IF c = "LR" THEN LexLR ELSE IF c = "DR" THEN LexDR ELSE c

Init == vToks = <<>>
Next == /\ Len(vToks) < MaxLen
        /\ \E c \in Classes : vToks' = Append(vToks, Tok(c, ValOf(c)))
Spec == Init /\ [][Next]_vToks

GrammarInv == GrammarAgrees(vToks)
TotalInv   == ~IsPanic(PTokens(vToks))

LexedAs(text) == LET st == Lex(text) IN st.err.kind = "none" /\ st.toks = vToks
RoundTrip  == vToks # <<>> => LexedAs(RenderToks(vToks, "loose")) /\ LexedAs(RenderToks(vToks, "tight"))

Codes == [cc \in Classes |-> cc]
RECURSIVE CodeFrom(_, _)
CodeFrom(t, n) == IF n > Len(t) THEN "" ELSE (IF n = 1 THEN "" ELSE " ") \o t[n].c \o CodeFrom(t, n + 1)

Emit == /\ vToks = <<>> => PrintT(ToJson([k |-> "cfg", maxlen |-> MaxLen, lexL |-> LexL, lexE |-> LexE, lexLR |-> LexLR, lexDR |-> LexDR]))
        /\ PAccepts(vToks) => PrintT(ToJson([k |-> "acc", t |-> CodeFrom(vToks, 1)]))

\* the L and E lexemes must be plain list ids that the scanner reads as themselves
ASSUME LexL \in ActiveSet /\ LexE \in ExceptionSet /\ ToLower(LexL \o "-or-later") \notin DOMAIN ActiveFold
ASSUME LowFormsAgree
=============================================================================
