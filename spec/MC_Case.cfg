SPECIFICATION Spec
CONSTANTS
  Dev = {}
INVARIANTS Emit CaseInv CaseSufInv
CHECK_DEADLOCK FALSE
