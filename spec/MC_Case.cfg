SPECIFICATION Spec
CONSTANTS
  Dev = {}
INVARIANTS Emit CaseInv
CHECK_DEADLOCK FALSE
