SPECIFICATION Spec
CONSTANTS
  Dev = {}
INVARIANTS CaseInv Emit
CHECK_DEADLOCK FALSE
