------------------------------- MODULE Render ------------------------------
(***************************************************************************)
(* Turning abstract inputs (token sequences, trees, terms) into the text a *)
(* caller would pass.  The MODEL owns rendering: the conformance harness   *)
(* receives final strings.                                                 *)
(***************************************************************************)
EXTENDS Api

IsWord(tk) == tk.c \in {"L", "E", "LR", "DR", "AND", "OR", "WITH"}

TokText(tk) == IF tk.c = "LR" THEN "LicenseRef-" \o tk.v
               ELSE IF tk.c = "DR" THEN "DocumentRef-" \o tk.v
               ELSE tk.v

(* loose: one space between tokens, '+' abuts the token before it          *)
(* tight: additionally no space next to ( ) : and none after '+'           *)
Sep(a, b, mode) ==
  IF b.c = "+" THEN ""
  ELSE IF mode = "loose" THEN " "
  ELSE IF IsWord(a) /\ IsWord(b) THEN " " ELSE ""

RECURSIVE RenderFrom(_, _, _)
RenderFrom(t, n, mode) == IF n > Len(t) THEN ""
                          ELSE (IF n = 1 THEN "" ELSE Sep(t[n - 1], t[n], mode)) \o TokText(t[n]) \o RenderFrom(t, n + 1, mode)
RenderToks(t, mode) == RenderFrom(t, 1, mode)

(* ----- trees ------------------------------------------------------------ *)
\* a tree whose leaves carry TEXT (a rendered single term) instead of a term
RECURSIVE RenderMin(_), RenderFull(_)
\* minimal parentheses: only an OR directly under an AND needs them
RenderMin(n) ==
  IF n.op = "leaf" THEN n.text
  ELSE LET side(m) == IF n.op = "and" /\ m.op = "or" THEN "(" \o RenderMin(m) \o ")" ELSE RenderMin(m)
       IN side(n.l) \o (IF n.op = "and" THEN " AND " ELSE " OR ") \o side(n.r)
\* every binary node parenthesised
RenderFull(n) ==
  IF n.op = "leaf" THEN n.text
  ELSE "(" \o RenderFull(n.l) \o (IF n.op = "and" THEN " AND " ELSE " OR ") \o RenderFull(n.r) \o ")"
=============================================================================
