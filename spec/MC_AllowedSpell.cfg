SPECIFICATION Spec
CONSTANTS
  Dev = {}
INVARIANTS SetInv VerdictInv Emit
CHECK_DEADLOCK FALSE
