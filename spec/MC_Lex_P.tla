------------------------------ MODULE MC_Lex_P -----------------------------
\* Parameters of MC_Lex (overwritten by the check): the lexeme vocabulary, instantiated from the shipped
\* tables by predicate.  t = text, kd = kind, c = canonical value (list spelling / base id / ref name).
MaxLex == 2
Prefixes == <<"", "Apache-2.0-or-later AND ">>
Seps   == <<" ">>
Vocab == <<
  [t |-> "MIT", kd |-> "plainL", c |-> "MIT"],
  [t |-> "GPL-2.0", kd |-> "depFold", c |-> "GPL-2.0"],
  [t |-> "Apache-2.0-or-later", kd |-> "unlistedLater", c |-> "Apache-2.0"],
  [t |-> "FOO", kd |-> "unknown", c |-> "FOO"],
  [t |-> "(", kd |-> "op", c |-> "("],
  [t |-> ")", kd |-> "op", c |-> ")"],
  [t |-> "+", kd |-> "plus", c |-> "+"],
  [t |-> "AND", kd |-> "op", c |-> "AND"],
  [t |-> "#", kd |-> "other", c |-> "#"] >>
=============================================================================
