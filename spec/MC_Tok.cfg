SPECIFICATION Spec
CONSTANTS
  Dev = {}
  MaxLen = 4
  LexL = "MIT"
  LexE = "Bison-exception-2.2"
  LexLR = "a"
  LexDR = "d"
INVARIANTS GrammarInv TotalInv RoundTrip Emit
CHECK_DEADLOCK FALSE
