SPECIFICATION Spec
CONSTANTS
  Dev = {}
INVARIANTS Clauses PerId
CHECK_DEADLOCK FALSE
