SPECIFICATION Spec
CONSTANTS
  Dev = {}
INVARIANTS PerId Clauses
CHECK_DEADLOCK FALSE
