------------------------------ MODULE TreeOps ------------------------------
(***************************************************************************)
(* Label trees shared by MC_Tree and MC_Rewrite: leaves are indices into   *)
(* LeafTexts; truth tables of every leaf term under every non-empty subset *)
(* of Universe, for the declarative and the operational matcher.           *)
(***************************************************************************)
EXTENDS Render, MC_Tree_P

NL == Len(LeafTexts)
NU == Len(Universe)
Masks == 1..(2^NU - 1)
InMask(m, j) == (m \div (2^(j - 1))) % 2 = 1

LeafTerm == TLCEval([k \in 1..NL |-> Parse(LeafTexts[k]).node.term])
UTerm    == TLCEval([j \in 1..NU |-> Parse(Universe[j]).node.term])
AllTerms == TLCEval({LeafTerm[k] : k \in 1..NL})

\* truth assignments on terms, per subset of the universe, for both matchers
TruthD == TLCEval([m \in Masks |-> [t \in AllTerms |-> \E j \in 1..NU : InMask(m, j) /\ MatchDecl(t, UTerm[j])]])
TruthO == TLCEval([m \in Masks |-> [t \in AllTerms |-> \E j \in 1..NU : InMask(m, j) /\ MatchOp(t, UTerm[j])]])

ASSUME \A k \in 1..NL : Parse(LeafTexts[k]).ok /\ Parse(LeafTexts[k]).node.op = "leaf" /\ InOracle(LeafTexts[k])
ASSUME \A j \in 1..NU : Parse(Universe[j]).ok /\ Parse(Universe[j]).node.op = "leaf" /\ InOracle(Universe[j])
ASSUME LowFormsAgree

LLeaf(k) == [op |-> "leaf", lab |-> k]
RECURSIVE NLeaves(_), Grown(_, _, _), WithTerms(_), WithTexts(_)
NLeaves(n) == IF n.op = "leaf" THEN 1 ELSE NLeaves(n.l) + NLeaves(n.r)
\* replace the idx-th leaf (left to right) by sub(leaf)
Grown(n, idx, sub) ==
  IF n.op = "leaf" THEN sub
  ELSE LET nl == NLeaves(n.l) IN
       IF idx <= nl THEN [n EXCEPT !.l = Grown(n.l, idx, sub)] ELSE [n EXCEPT !.r = Grown(n.r, idx - nl, sub)]
RECURSIVE LeafAt(_, _)
LeafAt(n, idx) == IF n.op = "leaf" THEN n
                  ELSE LET nl == NLeaves(n.l) IN IF idx <= nl THEN LeafAt(n.l, idx) ELSE LeafAt(n.r, idx - nl)
WithTerms(n) == IF n.op = "leaf" THEN Leaf(LeafTerm[n.lab]) ELSE Bin(n.op, WithTerms(n.l), WithTerms(n.r))
WithTexts(n) == IF n.op = "leaf" THEN [op |-> "leaf", text |-> LeafTexts[n.lab]]
                ELSE [op |-> n.op, l |-> WithTexts(n.l), r |-> WithTexts(n.r)]


\* verdict of a label tree for every subset mask, as a string of 0/1
RECURSIVE VStrOf(_, _)
VStrOf(t, m) == IF m > 2^NU - 1 THEN "" ELSE (IF Eval(WithTerms(t), TruthD[m]) THEN "1" ELSE "0") \o VStrOf(t, m + 1)
SameFn(a, b) == Leaves(a) = Leaves(b) /\ \A m \in Masks : Eval(a, TruthD[m]) = Eval(b, TruthD[m])
SameVerdicts(a, b) == \A m \in Masks : Eval(a, TruthD[m]) = Eval(b, TruthD[m])
=============================================================================
