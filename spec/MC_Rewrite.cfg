SPECIFICATION Spec
CONSTANTS
  Dev = {}
INVARIANTS RuleInv CompInv Emit
CHECK_DEADLOCK FALSE
