SPECIFICATION Spec
CONSTANTS
  Dev = {}
INVARIANTS ErrorRule ValidateRule Emit
CHECK_DEADLOCK FALSE
