------------------------------ MODULE Families ------------------------------
(***************************************************************************)
(* Size-parameterised input families (C14, and "very long / very deeply    *)
(* nested" for C03) with the cost the DESIGN of the implementation implies *)
(* for each: Satisfies and ExtractLicenses materialise the OR-of-ANDs      *)
(* expansion, whose size is DnfCells (Expand.tla), while evaluating the    *)
(* tree needs EvalSteps.  Terms are LicenseRef-<k> so that all n terms are *)
(* distinct and short.                                                     *)
(***************************************************************************)
EXTENDS Render

T(k) == "LicenseRef-" \o ToString(k)

RECURSIVE Chain(_, _, _), Groups(_, _, _, _), NestOpen(_), NestClose(_), Alt(_, _), LeftChain(_, _)
Chain(op, k, n) == IF k = n THEN T(k) ELSE T(k) \o " " \o op \o " " \o Chain(op, k + 1, n)
\* n groups of two terms: (a inner b) outer (a inner b) ...
Groups(inner, outer, k, n) == LET g == "(" \o T(2 * k - 1) \o " " \o inner \o " " \o T(2 * k) \o ")" IN
                              IF k = n THEN g ELSE g \o " " \o outer \o " " \o Groups(inner, outer, k + 1, n)
NestOpen(n)  == IF n = 0 THEN "" ELSE "(" \o NestOpen(n - 1)
NestClose(n) == IF n = 0 THEN "" ELSE ")" \o NestClose(n - 1)
\* a1 AND (a2 OR (a3 AND (a4 OR ...)))
Alt(k, n) == IF k = n THEN T(k) ELSE T(k) \o (IF k % 2 = 1 THEN " AND (" ELSE " OR (") \o Alt(k + 1, n) \o ")"
\* ((a1 AND a2) AND a3) AND ...
LeftChain(k, n) == IF k = 1 THEN T(1) ELSE "(" \o LeftChain(k - 1, n) \o ") AND " \o T(k)

FamilyNames == {"AndChain", "OrChain", "Nest", "AndOfOrs", "OrOfAnds", "Alternating", "LeftAndChain"}
FamilyText(f, n) ==
  CASE f = "AndChain"     -> Chain("AND", 1, n)
    [] f = "OrChain"      -> Chain("OR", 1, n)
    [] f = "Nest"         -> NestOpen(n) \o T(1) \o NestClose(n)
    [] f = "AndOfOrs"     -> Groups("OR", "AND", 1, n)
    [] f = "OrOfAnds"     -> Groups("AND", "OR", 1, n)
    [] f = "Alternating"  -> Alt(1, n)
    [] f = "LeftAndChain" -> LeftChain(n, n)

\* cost laws: number of alternatives and cells of the materialised expansion (closed forms, except
\* for the alternating nest whose law is the recurrence  A_k = a_k AND B_(k+1),  B_k = a_k OR A_(k+1))
RECURSIVE AltAlts(_, _), AltCells(_, _)
AltAlts(k, n)  == IF k = n THEN 1 ELSE IF k % 2 = 1 THEN AltAlts(k + 1, n) ELSE 1 + AltAlts(k + 1, n)
AltCells(k, n) == IF k = n THEN 1 ELSE IF k % 2 = 1 THEN AltAlts(k + 1, n) + AltCells(k + 1, n) ELSE 1 + AltCells(k + 1, n)
LawAlts(f, n) ==
  CASE f \in {"AndChain", "Nest", "LeftAndChain"} -> 1
    [] f = "OrChain"      -> n
    [] f = "AndOfOrs"     -> 2 ^ n
    [] f = "OrOfAnds"     -> n
    [] f = "Alternating"  -> AltAlts(1, n)
LawCells(f, n) ==
  CASE f \in {"AndChain", "LeftAndChain"} -> n
    [] f = "Nest"         -> 1
    [] f = "OrChain"      -> n
    [] f = "AndOfOrs"     -> n * 2 ^ n
    [] f = "OrOfAnds"     -> 2 * n
    [] f = "Alternating"  -> AltCells(1, n)
Terms(f, n) == IF f \in {"AndOfOrs", "OrOfAnds"} THEN 2 * n ELSE IF f = "Nest" THEN 1 ELSE n
=============================================================================
