----------------------------- MODULE MC_Tree_P -----------------------------
\* Parameters of MC_Tree.  The check overwrites this file with texts chosen from the shipped
\* tables by role and seed (a family member, a later member with '+', an -or-later / -only form,
\* an id WITH exception, a LicenseRef, a DocumentRef:LicenseRef, an unrelated id).
MaxLeaves == 3
LeafTexts == <<"GPL-2.0-only", "LicenseRef-a", "MIT", "Apache-2.0+">>
Universe  == <<"GPL-2.0", "GPL-1.0+", "MIT", "LicenseRef-a", "Apache-2.0">>
=============================================================================
