------------------------------ MODULE MC_Case ------------------------------
(***************************************************************************)
(* Letter case (C09).  For every listed license id and every listed        *)
(* exception id, in lower, upper and alternating case:                     *)
(*   CaseInv   the scanner yields the same token (list spelling) as for    *)
(*             the list's own spelling - which subsumes "no case variant   *)
(*             starts with an operator keyword or a Ref prefix"            *)
(*   FoldUnique (ASSUME) no two entries of a list are equal up to case     *)
(* Emitted: validity of the variant; Satisfies with the variant alone,     *)
(* inside a three-term expression and as the allowed entry, each against   *)
(* the list spelling; ExtractLicenses of the variant (must report the      *)
(* list's casing).                                                         *)
(***************************************************************************)
EXTENDS Render, MC_Case_P

VARIABLES vKind, vIdx, vVar

Variants == {"lower", "upper", "mixed"}
Init == vKind = "none" /\ vIdx = 0 /\ vVar = "none"
PickLic == vKind = "none" /\ vKind' = "lic" /\ vIdx' \in DOMAIN LicIds /\ vVar' \in Variants
PickExc == vKind = "none" /\ vKind' = "exc" /\ vIdx' \in DOMAIN ExcIds /\ vVar' \in Variants
Next == PickLic \/ PickExc
Spec == Init /\ [][Next]_<<vKind, vIdx, vVar>>

Orig == IF vKind = "lic" THEN LicIds[vIdx] ELSE ExcIds[vIdx]
VarOf(s) == IF vVar = "lower" THEN ToLower(s) ELSE IF vVar = "upper" THEN ToUpper(s) ELSE MixCase(s, MixK)
Var == VarOf(Orig)

FoldUnique == /\ Cardinality(DOMAIN ActiveFold) = Len(Active)
              /\ Cardinality(DOMAIN DepFold) = Len(Deprecated)
              /\ Cardinality(DOMAIN ExcFold) = Len(Exceptions)
ASSUME LowFormsAgree

LicText(s) == s
ExcText(s) == P1 \o " WITH " \o s
TextOf(s) == IF vKind = "lic" THEN LicText(s) ELSE ExcText(s)

CaseInv == vKind # "none" =>
             LET a == Lex(TextOf(Orig)) b == Lex(TextOf(Var)) IN
             a.err.kind = "none" /\ b.err.kind = "none" /\ a.toks = b.toks

\* the id part of a suffixed spelling (X-only, X-or-later; the suffix itself is matched exactly) may be written in any case too
Suffixes == {"-only", "-or-later"}
CaseSufInv == vKind = "lic" =>
                \A suf \in Suffixes : LET a == Lex(Orig \o suf) b == Lex(Var \o suf) IN a.err.kind = b.err.kind /\ a.toks = b.toks

ResJ(e, a) == LET r == SatisfiesSpec(e, a) IN [sat |-> r.sat, err |-> r.err]
CallJ(e, a) == [e |-> e, a |-> a]
Same(e1, a1, e2, a2) == PrintT(ToJson([k |-> "same", calls |-> <<CallJ(e1, a1), CallJ(e2, a2)>>,
                                        exp |-> <<ResJ(e1, a1), ResJ(e2, a2)>>,
                                        posdep |-> ~SatPositionIndependent(e1, a1) \/ ~SatPositionIndependent(e2, a2)]))
SameA(e1, a1, e2, a2, amb) == PrintT(ToJson([k |-> "same", calls |-> <<CallJ(e1, a1), CallJ(e2, a2)>>,
                                        exp |-> <<ResJ(e1, a1), ResJ(e2, a2)>>, amb |-> amb,
                                        posdep |-> ~SatPositionIndependent(e1, a1) \/ ~SatPositionIndependent(e2, a2)]))
In3(s) == P2 \o " AND (" \o s \o " OR " \o P1 \o " WITH " \o ExcIds[1] \o ")"

Emit == vKind # "none" =>
        LET o == TextOf(Orig) v == TextOf(Var) IN
        /\ PrintT(ToJson([k |-> "str", s |-> v, valid |-> Valid(v), compound |-> FALSE, amb |-> SetToSeqS(Parse(v).amb)]))
        /\ Same(o, <<o>>, v, <<o>>)                       \* alone, against the list spelling
        /\ Same(o, <<o>>, o, <<v>>)                       \* as the allowed entry
        /\ Same(In3(o), <<P2, o>>, In3(v), <<P2, o>>)     \* inside a three-term expression
        /\ Same(In3(o), <<P2, o>>, In3(o), <<P2, v>>)
        /\ (vKind = "lic" /\ ~HasSuffix(Orig, "-or-later")) =>     \* the '+' shorthand on a case variant
              /\ Same(o \o "+", <<LicRel[vIdx]>>, v \o "+", <<LicRel[vIdx]>>)
              /\ Same(LicRel[vIdx], <<o \o "+">>, LicRel[vIdx], <<v \o "+">>)
              /\ Same(o \o "+ WITH " \o ExcIds[1], <<o \o "+ WITH " \o ExcIds[1]>>, v \o "+ WITH " \o ExcIds[1], <<o \o "+ WITH " \o ExcIds[1]>>)
        /\ (vKind = "lic" /\ HasSuffix(Orig, "-or-later")) =>      \* listed X-or-later: the shorthand X+ with X in variant case
              LET b == VarOf(DropSuffix(Orig, 9)) \o "+" IN
              /\ PrintT(ToJson([k |-> "str", s |-> b, valid |-> Valid(b), compound |-> FALSE, amb |-> SetToSeqS(Parse(b).amb)]))
              /\ Same(o, <<o>>, b, <<o>>) /\ Same(LicRel[vIdx], <<o>>, LicRel[vIdx], <<b>>)
        /\ vKind = "lic" =>                              \* the id part of a suffixed spelling in variant case (R1: the oracle speaks
              \A suf \in Suffixes :                        \* only about active ids without a suffix; elsewhere the two calls must still agree)
                 LET os == o \o suf  vs == v \o suf
                     amb == IF Orig \in ActiveSet /\ ~HasSuffix(Orig, "-only") /\ ~HasSuffix(Orig, "-or-later") THEN <<>> ELSE <<"suffix-outside-R1">>
                 IN /\ SameA(os, <<os>>, vs, <<os>>, amb) /\ SameA(os, <<os>>, os, <<vs>>, amb)
                    /\ SameA(In3(os), <<P2, os>>, In3(vs), <<P2, os>>, amb)
                    /\ SameA(LicRel[vIdx], <<os>>, LicRel[vIdx], <<vs>>, amb)
        /\ vKind = "lic" =>                              \* a match that goes through the version range, both ways
              /\ Same(LicRel[vIdx], <<o>>, LicRel[vIdx], <<v>>)
              /\ Same(o, <<LicRel[vIdx]>>, v, <<LicRel[vIdx]>>)
        /\ PrintT(ToJson([k |-> "ext", e |-> v, err |-> ~Valid(v),
                          terms |-> IF Valid(v) THEN SetToSeqS({SetToSeqS(Spellings(t)) : t \in Leaves(Parse(o).node)}) ELSE <<>>]))
=============================================================================
