-------------------------------- MODULE Api --------------------------------
(***************************************************************************)
(* The three exported functions as pipelines over the stage operators:     *)
(*                                                                         *)
(*   parse            = Lex ; PTokens                                      *)
(*   ValidateLicenses = for each element: parse, collect the failures      *)
(*   ExtractLicenses  = parse ; leaves ; canonical text ; distinct         *)
(*   Satisfies        = parse ; empty-list check ; parse each allowed      *)
(*                      entry, reject compound ; Eval under Match          *)
(*                                                                         *)
(* Every operator returns the PROJECTED OBSERVATION of the call (DESIGN.md *)
(* 4.3) - what a caller can see - never an internal shape.                 *)
(***************************************************************************)
EXTENDS Expand

\* a set as a sequence in some fixed order (for JSON emission)
RECURSIVE SetToSeqS(_)
SetToSeqS(S) == IF S = {} THEN <<>> ELSE LET x == CHOOSE y \in S : TRUE IN <<x>> \o SetToSeqS(S \ {x})

\* parse(source): [ok, node, err, amb, ntoks, panic]
Parse(s) ==
  IF Len(s) = 0 THEN [ok |-> FALSE, node |-> PFail.node, err |-> MkErr("empty", 0, ""), amb |-> {}, ntoks |-> 0, panic |-> FALSE]
  ELSE LET st == Lex(s) IN
       IF st.err.kind # "none"
       THEN [ok |-> FALSE, node |-> PFail.node, err |-> st.err, amb |-> LexAmb(st), ntoks |-> Len(st.toks), panic |-> FALSE]
       ELSE LET r == PTokens(st.toks) IN
            [ok |-> r.ok, node |-> r.node,
             err |-> IF r.ok THEN NoErr ELSE MkErr("syntax", 0, ""),
             amb |-> LexAmb(st), ntoks |-> Len(st.toks), panic |-> IsPanic(r)]

Valid(s)    == Parse(s).ok
Compound(s) == LET r == Parse(s) IN r.ok /\ r.node.op # "leaf"
InOracle(s) == Parse(s).amb = {}

\* ValidateLicenses(list) = <<all valid, the invalid elements in order with multiplicity>>
ValidateSpec(list) ==
  LET bad == SelectSeq(list, LAMBDA x : ~Valid(x)) IN [ok |-> Len(bad) = 0, invalid |-> bad]

\* ExtractLicenses(e): error iff invalid; else one string per distinct term.
\* terms: the distinct terms; each maps to its acceptable spellings (R7)
ExtractSpec(e) ==
  LET r == Parse(e) IN
  IF ~r.ok THEN [err |-> TRUE, terms |-> {}, strs |-> {}]
  ELSE [err |-> FALSE, terms |-> Leaves(r.node), strs |-> {CanonStr(t) : t \in Leaves(r.node)}]

\* Satisfies(e, allowed): <<verdict, error>>
AllowedTerms(allowed) == {Parse(allowed[i]).node.term : i \in DOMAIN allowed}
TruthDecl(terms, A) == [t \in terms |-> \E a \in A : MatchDecl(t, a)]
TruthOp(terms, A)   == [t \in terms |-> \E a \in A : MatchOp(t, a)]

SatisfiesSpec(e, allowed) ==
  LET r == Parse(e) IN
  IF ~r.ok THEN [sat |-> FALSE, err |-> TRUE]
  ELSE IF Len(allowed) = 0 THEN [sat |-> FALSE, err |-> TRUE]
  ELSE IF \E i \in DOMAIN allowed : ~Valid(allowed[i]) \/ Compound(allowed[i]) THEN [sat |-> FALSE, err |-> TRUE]
  ELSE [sat |-> Eval(r.node, TruthDecl(Leaves(r.node), AllowedTerms(allowed))), err |-> FALSE]

\* the code's decision procedure, as designed: expansion + operational matcher
SatisfiesOp(e, allowed) ==
  LET r == Parse(e) IN
  IF ~r.ok \/ Len(allowed) = 0 \/ (\E i \in DOMAIN allowed : ~Valid(allowed[i]) \/ Compound(allowed[i]))
  THEN [sat |-> FALSE, err |-> TRUE]
  ELSE [sat |-> DnfSat(r.node, TruthOp(Leaves(r.node), AllowedTerms(allowed))), err |-> FALSE]

\* The stage boundaries a call passes (where the implementation has its verif-tagged hooks), as the
\* pipeline above implies them: early return exactly on the error paths.
StagesOf(fn, e, a) ==
  IF fn = "Satisfies" THEN
       IF ~Valid(e) THEN <<"return">>
       ELSE IF Len(a) = 0 \/ (\E n \in DOMAIN a : ~Valid(a[n]) \/ Compound(a[n])) THEN <<"parsed", "return">>
       ELSE <<"parsed", "allowed", "expanded", "return">>
  ELSE IF fn = "ExtractLicenses" THEN
       IF ~Valid(e) THEN <<"return">> ELSE <<"parsed", "expanded", "return">>
  ELSE [n \in 1..Len(a) |-> "parsed"] \o <<"return">>

\* is every Match decision of this call independent of duplicate table positions (R9)?
SatPositionIndependent(e, allowed) ==
  LET r == Parse(e) IN
  (r.ok /\ \A i \in DOMAIN allowed : Valid(allowed[i]) /\ ~Compound(allowed[i])) =>
     \A t \in Leaves(r.node), a \in AllowedTerms(allowed) : PositionIndependent(t, a)
=============================================================================
