SPECIFICATION Spec
CONSTANTS
  Dev = {}
INVARIANTS OpDecl Symmetric Reflexive NoCross PlusNatural Emit
CHECK_DEADLOCK FALSE
