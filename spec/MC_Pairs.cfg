SPECIFICATION Spec
CONSTANTS
  Dev = {}
INVARIANTS Emit OpDecl Symmetric Reflexive NoCross PlusNatural
CHECK_DEADLOCK FALSE
