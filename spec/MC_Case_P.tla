----------------------------- MODULE MC_Case_P -----------------------------
\* Parameters of MC_Case (overwritten by the check)
LicIds == <<"MIT", "GPL-2.0", "GPL-2.0-or-later", "Apache-2.0">>
ExcIds == <<"Bison-exception-2.2", "Classpath-exception-2.0">>
\* per license id: a term that matches it only THROUGH the version range (a later/earlier family member), or the id itself
LicRel == <<"MIT", "GPL-3.0-only+", "GPL-3.0-only", "Apache-1.0+">>
MixK   == 0
P1 == "Zlib"
P2 == "ISC"
=============================================================================
