------------------------------- MODULE Terms -------------------------------
(***************************************************************************)
(* Single-term matching (spdxexp/node.go, compare.go, license.go), twice:  *)
(*                                                                         *)
(*   MatchDecl - the rule as property C02 words it, over the family table  *)
(*               the tree ships.  Where an id is listed at several         *)
(*               positions the table means its FIRST position (that is how *)
(*               the lookup is documented to work: "duplicates shadow      *)
(*               later entries"); the shadowed entries are dead, which is  *)
(*               C11's OnePosition clause, not a second meaning (R9);      *)
(*   MatchOp   - the operational structure of licensesAreCompatible /      *)
(*               licenseRefsAreCompatible: exception gate, exact-equality  *)
(*               shortcut, then the four '+' cases over compareGT /        *)
(*               compareEQ with FIRST-match table positions.               *)
(*                                                                         *)
(* A term is [kind, id, plus, exc, doc] (see Parser.tla).  For licenses id *)
(* is the list's spelling of the token (possibly ending in -or-later, in   *)
(* which case plus is TRUE), exc is "" or the exception's list spelling.   *)
(***************************************************************************)
EXTENDS Parser

Base(id) == StripOrLater(id)
Where(id) == IF Pos(id) = {} THEN {} ELSE {FirstPos(id)}     \* the table's meaning of an id (R9)

CanonStr(t) == IF t.kind = "ref"
               THEN (IF t.doc # "" THEN "DocumentRef-" \o t.doc \o ":" ELSE "") \o "LicenseRef-" \o t.id
               ELSE t.id \o (IF t.plus THEN "+" ELSE "") \o (IF t.exc # "" THEN " WITH " \o t.exc ELSE "")

(* Acceptable spellings of a term in ExtractLicenses' output (R7): the     *)
(* literal shape of an "or later" term is not pinned.                      *)
Spellings(t) == IF t.kind = "ref" THEN {CanonStr(t)}
                ELSE LET w == IF t.exc # "" THEN " WITH " \o t.exc ELSE "" IN
                     IF HasSuffix(t.id, "-or-later")
                     THEN {t.id \o w, t.id \o "+" \o w, Base(t.id) \o "+" \o w}
                     ELSE {t.id \o (IF t.plus THEN "+" ELSE "") \o w}

(* ----- declarative ------------------------------------------------------ *)
MatchDecl(a, b) ==
  \/ a.kind = "ref" /\ b.kind = "ref" /\ a.id = b.id /\ a.doc = b.doc
  \/ /\ a.kind = "lic" /\ b.kind = "lic" /\ a.exc = b.exc
     /\ \/ Base(a.id) = Base(b.id)
        \/ \E p \in Where(Base(a.id)), q \in Where(Base(b.id)) :
              /\ p[1] = q[1]
              /\ \/ ~a.plus /\ ~b.plus /\ p[2] = q[2]
                 \/ a.plus /\ ~b.plus /\ q[2] >= p[2]
                 \/ ~a.plus /\ b.plus /\ p[2] >= q[2]
                 \/ a.plus /\ b.plus

\* (kept for the record kinds that carry a "posdep" flag: with the first-position reading no pair is ambiguous)
PositionIndependent(a, b) == TRUE

(* ----- operational ------------------------------------------------------ *)
HasRange(id) == Pos(Base(id)) # {}
RangeOf(id)  == FirstPos(Base(id))
SameGroup(x, y) == HasRange(x) /\ HasRange(y) /\ RangeOf(x)[1] = RangeOf(y)[1]
CompareGT(x, y) == SameGroup(x, y) /\ RangeOf(x)[2] > RangeOf(y)[2]
CompareEQ(x, y) == x = y \/ (SameGroup(x, y) /\ RangeOf(x)[2] = RangeOf(y)[2])
InRange(simple, plus) == CompareGT(simple, plus) \/ CompareEQ(simple, plus)

MatchOp(a, b) ==
  IF a.kind = "ref" /\ b.kind = "ref" THEN
       a.id = b.id /\ (a.doc # "") = (b.doc # "") /\ (a.doc # "" => a.doc = b.doc)
  ELSE IF a.kind # "lic" \/ b.kind # "lic" THEN FALSE
  ELSE IF a.exc # b.exc THEN FALSE                                  \* exceptionsAreCompatible
  ELSE IF ToLower(CanonStr(a)) = ToLower(CanonStr(b)) THEN TRUE     \* licensesExactlyEqual
  ELSE IF b.plus THEN (IF a.plus THEN SameGroup(a.id, b.id) ELSE InRange(a.id, b.id))
  ELSE IF a.plus THEN InRange(b.id, a.id)
  ELSE CompareEQ(a.id, b.id)
=============================================================================
