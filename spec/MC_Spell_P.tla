----------------------------- MODULE MC_Spell_P ----------------------------
\* Parameters of MC_Spell (overwritten by the check).  Ids: listed ids under test.  Related[n]: texts of
\* single terms to confront id n with (its family members with and without '+', unrelated ids).
Ids     == <<"GPL-2.0", "Apache-2.0", "AGPL-1.0", "MIT">>
Related == << <<"GPL-2.0", "GPL-1.0+", "GPL-3.0-only", "MIT">>, <<"Apache-1.0+", "Apache-2.0", "ISC">>,
              <<"AGPL-1.0", "AGPL-1.0-only", "AGPL-3.0", "AGPL-1.0+">>, <<"MIT", "MIT+", "ISC">> >>
Exc1 == "Classpath-exception-2.0"
Exc2 == "Bison-exception-2.2"
Plain == "Zlib"
Gnu == "GPL-2.0-or-later"   \* a listed -or-later id
Last == "zlib-acknowledgement"   \* a listed id that sorts after the others (byte order)
=============================================================================
