------------------------------- MODULE Tables ------------------------------
(***************************************************************************)
(* The shipped configuration of the library, as data.                      *)
(*                                                                         *)
(* TablesData.tla is written by `harness export`, which links the REAL     *)
(* spdxlicenses package of the working tree and dumps GetLicenses(),       *)
(* GetDeprecated(), GetExceptions() and LicenseRanges() verbatim, as TLA+  *)
(* literals.  Nothing else about the tables reaches the model; every       *)
(* derived notion (case folding, family positions, version shapes) is      *)
(* computed here.                                                          *)
(***************************************************************************)
EXTENDS Chars, Json, FiniteSets, TLC, TablesData


Active     == ActiveData       \* sequence of ids, list order
Deprecated == DeprecatedData
Exceptions == ExceptionsData
Ranges     == RangesData       \* seq (families) of seq (steps) of seq (ids)

ActiveSet     == TLCEval({Active[i] : i \in DOMAIN Active})
DeprecatedSet == TLCEval({Deprecated[i] : i \in DOMAIN Deprecated})
ExceptionSet  == TLCEval({Exceptions[i] : i \in DOMAIN Exceptions})
LicenseIds    == TLCEval(ActiveSet \cup DeprecatedSet)

(* Case-insensitive lookup returning the list's own spelling; the FIRST   *)
(* entry wins when two entries are equal up to case (as a linear scan of  *)
(* the list would).                                                       *)
(* TLCEval forces the (otherwise lazily re-evaluated) function values into  *)
(* explicit tables once, when TLC pre-computes constant definitions.  TLC  *)
(* only pre-computes definitions that use no RECURSIVE operator, so the    *)
(* lower-case forms come with the export; LowFormsAgree (an ASSUME of the  *)
(* checked configurations) re-derives them with the model's own ToLower.   *)
FoldOf(list, low) ==
    [l \in {low[i] : i \in DOMAIN low} |->
        list[CHOOSE i \in DOMAIN low : low[i] = l /\ \A j \in 1..(i-1) : low[j] # l]]
ActiveFold == TLCEval(FoldOf(Active, ActiveLowData))
DepFold    == TLCEval(FoldOf(Deprecated, DeprecatedLowData))
ExcFold    == TLCEval(FoldOf(Exceptions, ExceptionsLowData))
LowFormsAgree == /\ \A i \in DOMAIN Active : ToLower(Active[i]) = ActiveLowData[i]
                 /\ \A i \in DOMAIN Deprecated : ToLower(Deprecated[i]) = DeprecatedLowData[i]
                 /\ \A i \in DOMAIN Exceptions : ToLower(Exceptions[i]) = ExceptionsLowData[i]
                 /\ Len(ActiveLowData) = Len(Active) /\ Len(DeprecatedLowData) = Len(Deprecated)
                 /\ Len(ExceptionsLowData) = Len(Exceptions)

(* Positions of an id in the family table: set of <<family, step>>.       *)
RangeIds == TLCEval(UNION {UNION {{Ranges[f][s][k] : k \in DOMAIN Ranges[f][s]} : s \in DOMAIN Ranges[f]} : f \in DOMAIN Ranges})
AllPos == TLCEval(UNION {{<<f, s>> : s \in DOMAIN Ranges[f]} : f \in DOMAIN Ranges})
PosMap == TLCEval([id \in RangeIds |->
             {p \in AllPos : \E k \in DOMAIN Ranges[p[1]][p[2]] : Ranges[p[1]][p[2]][k] = id}])
Pos(id) == IF id \in RangeIds THEN PosMap[id] ELSE {}

\* the position a first-match linear scan of the table finds
FirstPos(id) == LET P == Pos(id) IN
                CHOOSE p \in P : \A q \in P : p[1] < q[1] \/ (p[1] = q[1] /\ p[2] <= q[2])

StripOrLater(id) == IF HasSuffix(id, "-or-later") THEN DropSuffix(id, 9) ELSE id
StripOnly(id)    == IF HasSuffix(id, "-only") THEN DropSuffix(id, 5) ELSE id
=============================================================================
