SPECIFICATION TraceSpec
CONSTANT Dev = {}
INVARIANT Report
POSTCONDITION TraceAccepted
CHECK_DEADLOCK FALSE
