------------------------------- MODULE Expand ------------------------------
(***************************************************************************)
(* Boolean reading of an expression tree and its expansion to OR-of-ANDs   *)
(* (spdxexp/satisfies.go: expand, expandOr, expandAnd, ...).               *)
(*                                                                         *)
(*   Eval   - the tree as a Boolean formula (the meaning C01 states)       *)
(*   Dnf    - the set of alternatives, each a set of terms (what the code  *)
(*            materialises, as a design: every alternative is one way of   *)
(*            choosing an operand at each OR)                              *)
(*   DnfSat - "some alternative is fully covered" (the code's decision)    *)
(* DnfAgrees says the design decides exactly Eval.                         *)
(***************************************************************************)
EXTENDS Terms

RECURSIVE Eval(_, _), Dnf(_), Leaves(_), LeafCount(_), Depth(_), DnfAlts(_), DnfCells(_)

\* T is the truth assignment, a function on (a superset of) the tree's terms
Eval(n, T) == IF n.op = "leaf" THEN T[n.term]
                 ELSE IF n.op = "and" THEN Eval(n.l, T) /\ Eval(n.r, T)
                 ELSE Eval(n.l, T) \/ Eval(n.r, T)

Leaves(n) == IF n.op = "leaf" THEN {n.term} ELSE Leaves(n.l) \cup Leaves(n.r)
LeafCount(n) == IF n.op = "leaf" THEN 1 ELSE LeafCount(n.l) + LeafCount(n.r)
Depth(n) == IF n.op = "leaf" THEN 0
            ELSE LET a == Depth(n.l) b == Depth(n.r) IN 1 + (IF a > b THEN a ELSE b)

Dnf(n) == IF n.op = "leaf" THEN {{n.term}}
          ELSE IF n.op = "or" THEN Dnf(n.l) \cup Dnf(n.r)
          ELSE {x \cup y : x \in Dnf(n.l), y \in Dnf(n.r)}

\* historical deviations of expandOrTerm (D1)
RECURSIVE DnfDev(_)
DnfDev(n) ==
  IF n.op = "leaf" THEN {{n.term}}
  ELSE IF n.op = "and" THEN {x \cup y : x \in DnfDev(n.l), y \in DnfDev(n.r)}
  ELSE LET side(m) ==
             IF m.op = "leaf" THEN (IF "OrTermSkipsRef" \in Dev /\ m.term.kind = "ref" THEN {} ELSE {{m.term}})
             ELSE IF m.op = "or" THEN DnfDev(m)
             ELSE IF "OrTermFirstAltOnly" \in Dev
                  THEN LET d == DnfDev(m) IN IF d = {} THEN {} ELSE {CHOOSE x \in d : TRUE}
                  ELSE DnfDev(m)
       IN side(n.l) \cup side(n.r)

DnfUsed(n) == IF Dev \cap {"OrTermSkipsRef", "OrTermFirstAltOnly"} # {} THEN DnfDev(n) ELSE Dnf(n)

DnfSat(n, T) == \E alt \in DnfUsed(n) : \A t \in alt : T[t]
DnfAgrees(n, T) == DnfSat(n, T) = Eval(n, T)
DnfKeepsLeaves(n) == UNION DnfUsed(n) = Leaves(n)

\* abstract cost laws (C14): number of alternatives / total cells the code materialises
DnfAlts(n)  == IF n.op = "leaf" THEN 1
               ELSE IF n.op = "or" THEN DnfAlts(n.l) + DnfAlts(n.r)
               ELSE DnfAlts(n.l) * DnfAlts(n.r)
DnfCells(n) == IF n.op = "leaf" THEN 1
               ELSE IF n.op = "or" THEN DnfCells(n.l) + DnfCells(n.r)
               ELSE DnfCells(n.l) * DnfAlts(n.r) + DnfCells(n.r) * DnfAlts(n.l)
EvalSteps(n) == 2 * LeafCount(n) - 1
=============================================================================
