------------------------------- MODULE MC_Gen -------------------------------
(***************************************************************************)
(* The shipped lists against the SPDX source data (C12).                   *)
(*                                                                         *)
(* Init loads cmd/licenses.json and cmd/exceptions.json (read by TLC       *)
(* itself) and the committed generated files (as lines, exported by the    *)
(* harness) into the state; the lists the library really validates against *)
(* come from TablesData (exported through the real package).  Then one     *)
(* step per listed id emits the per-id acceptance obligations.             *)
(*                                                                         *)
(* Clauses (reported with the offending ids, the run does not stop):       *)
(*   ActiveFromJson / DeprecatedFromJson / ExceptionsFromJson              *)
(*        list = the JSON's ids with the right deprecation flag, in order  *)
(*   FilesFromGen  each committed file = Gen.tla's output for the JSON     *)
(*   Disjoint      the three lists are pairwise disjoint                   *)
(*   FoldUnique    no two listed ids are equal up to letter case           *)
(* Per id: a license id is a valid one-term expression; an exception id is *)
(* valid after WITH and invalid alone, as an AND operand and as an allowed *)
(* entry.                                                                  *)
(***************************************************************************)
EXTENDS Render, Gen

VARIABLES vSrc, vIdx

\* an entry without the flag (or with null) is not deprecated
Flag(ent) == IF "isDeprecatedLicenseId" \in DOMAIN ent THEN ent.isDeprecatedLicenseId = TRUE ELSE FALSE
LoadLic == LET j == JsonDeserialize("licenses.json").licenses IN
           [n \in DOMAIN j |-> [id |-> j[n].licenseId, dep |-> Flag(j[n])]]
LoadExc == LET j == JsonDeserialize("exceptions.json").exceptions IN
           [n \in DOMAIN j |-> [id |-> j[n].licenseExceptionId, dep |-> Flag(j[n])]]
LoadFiles == JsonDeserialize("genfiles.json")

AllIds == Active \o Deprecated \o Exceptions
Init == /\ vSrc = [lic |-> LoadLic, exc |-> LoadExc, files |-> LoadFiles]
        /\ vIdx = 0
Next == vIdx < Len(AllIds) /\ vIdx' = vIdx + 1 /\ vSrc' = vSrc
Spec == Init /\ [][Next]_<<vSrc, vIdx>>

IdsWhere(recs, dep) == LET sel == SelectSeq(recs, LAMBDA r : r.dep = dep) IN [n \in DOMAIN sel |-> sel[n].id]
JsonActive     == IdsWhere(vSrc.lic, FALSE)
JsonDeprecated == IdsWhere(vSrc.lic, TRUE)
JsonExceptions == IdsWhere(vSrc.exc, FALSE)

SeqDiff(a, b) == {a[n] : n \in {m \in DOMAIN a : m > Len(b) \/ a[m] # b[m]}} \cup {b[n] : n \in {m \in DOMAIN b : m > Len(a) \/ a[m] # b[m]}}
ToSet(q) == {q[n] : n \in DOMAIN q}
LowAll == [n \in DOMAIN AllIds |-> ToLower(AllIds[n])]

Say(name, bad) == bad = {} \/ PrintT(ToJson([k |-> "tableinv", inv |-> name, fam |-> 0, ids |-> SetToSeqS(bad)]))

P == "MIT"   \* any valid license id; the check ASSUMEs it is one
ASSUME P \in ActiveSet /\ LowFormsAgree

Clauses == vIdx = 0 =>
  /\ Say("ActiveFromJson", SeqDiff(Active, JsonActive))
  /\ Say("DeprecatedFromJson", SeqDiff(Deprecated, JsonDeprecated))
  /\ Say("ExceptionsFromJson", SeqDiff(Exceptions, JsonExceptions))
  /\ Say("FilesFromGen", (IF vSrc.files.licenses = GenLicenses(JsonActive) THEN {} ELSE {"get_licenses.go"})
                    \cup (IF vSrc.files.deprecated = GenDeprecated(JsonDeprecated) THEN {} ELSE {"get_deprecated.go"})
                    \cup (IF vSrc.files.exceptions = GenExceptions(JsonExceptions) THEN {} ELSE {"get_exceptions.go"}))
  /\ Say("Disjoint", (ToSet(Active) \cap ToSet(Deprecated)) \cup (ToSet(Active) \cap ToSet(Exceptions)) \cup (ToSet(Deprecated) \cap ToSet(Exceptions)))
  /\ Say("FoldUnique", {AllIds[n] : n \in {m \in DOMAIN AllIds : \E o \in DOMAIN AllIds : o # m /\ LowAll[o] = LowAll[m]}})
  /\ PrintT(ToJson([k |-> "tally", tag |-> "clauses", n |-> 6]))

Str(s, v) == PrintT(ToJson([k |-> "str", s |-> s, valid |-> v, compound |-> FALSE, amb |-> <<>>]))
PerId == vIdx > 0 =>
  LET id == AllIds[vIdx] IN
  IF vIdx <= Len(Active) + Len(Deprecated)
  THEN /\ Str(id, TRUE)                     \* (obligations are emitted first, then asserted of the model itself)
       /\ PrintT(ToJson([k |-> "sat", e |-> id, a |-> <<id>>, sat |-> TRUE, err |-> FALSE]))
       /\ Valid(id)
  ELSE /\ Str(P \o " WITH " \o id, TRUE) /\ Str(id, FALSE) /\ Str(P \o " AND " \o id, FALSE) /\ Str(id \o " WITH " \o id, FALSE)
       /\ Str(P \o "+ WITH " \o id, TRUE) /\ Str("(" \o P \o "-or-later WITH " \o ToLower(id) \o ")", TRUE)
       /\ Valid(P \o " WITH " \o id) /\ ~Valid(id) /\ ~Valid(P \o " AND " \o id)
=============================================================================
