-------------------------------- MODULE Order -------------------------------
(***************************************************************************)
(* The ORDER of ExtractLicenses' output (beyond what the listed properties *)
(* require - C06 speaks about the set, C13 about stability): the           *)
(* implementation sorts every OR-of-ANDs alternative by the canonical text *)
(* of its terms (byte order), sorts the alternatives lexicographically     *)
(* (a proper prefix first), concatenates them and keeps the first          *)
(* occurrence of each text.  Specified here so that a change of the order  *)
(* is noticed (as a drift note in the evidence, never as a violation).     *)
(***************************************************************************)
EXTENDS Api

Ascii == " !\"#$%&'()*+,-./0123456789:;<=>?@ABCDEFGHIJKLMNOPQRSTUVWXYZ[\\]^_`abcdefghijklmnopqrstuvwxyz{|}~"
CodeOf == TLCEval([c \in CharsOf(Ascii) |-> CHOOSE n \in 1..Len(Ascii) : CharAt(Ascii, n) = c])

RECURSIVE StrLessFrom(_, _, _)
StrLessFrom(a, b, n) == IF n > Len(a) THEN n <= Len(b)
                        ELSE IF n > Len(b) THEN FALSE
                        ELSE IF CharAt(a, n) # CharAt(b, n) THEN CodeOf[CharAt(a, n)] < CodeOf[CharAt(b, n)]
                        ELSE StrLessFrom(a, b, n + 1)
StrLess(a, b) == StrLessFrom(a, b, 1)

\* insertion of a string into a sorted sequence of strings (duplicates kept: alternatives are bags)
RECURSIVE InsertSorted(_, _)
InsertSorted(q, x) == IF q = <<>> THEN <<x>>
                      ELSE IF StrLess(x, Head(q)) THEN <<x>> \o q ELSE <<Head(q)>> \o InsertSorted(Tail(q), x)
RECURSIVE MergeSorted(_, _)
MergeSorted(q, r) == IF r = <<>> THEN q ELSE MergeSorted(InsertSorted(q, Head(r)), Tail(r))

\* the alternatives, each as the sorted sequence of the canonical texts of its terms
RECURSIVE AltSeqs(_)
AltSeqs(n) == IF n.op = "leaf" THEN {<<CanonStr(n.term)>>}
              ELSE IF n.op = "or" THEN AltSeqs(n.l) \cup AltSeqs(n.r)
              ELSE {MergeSorted(x, y) : x \in AltSeqs(n.l), y \in AltSeqs(n.r)}

RECURSIVE SeqLessFrom(_, _, _)
SeqLessFrom(a, b, n) == IF n > Len(a) THEN n <= Len(b)
                        ELSE IF n > Len(b) THEN FALSE
                        ELSE IF a[n] # b[n] THEN StrLess(a[n], b[n])
                        ELSE SeqLessFrom(a, b, n + 1)
RECURSIVE SortAlts(_)
SortAlts(S) == IF S = {} THEN <<>>
               ELSE LET m == CHOOSE x \in S : \A y \in S \ {x} : SeqLessFrom(x, y, 1) IN <<m>> \o SortAlts(S \ {m})
RECURSIVE Flatten(_)
Flatten(qq) == IF qq = <<>> THEN <<>> ELSE Head(qq) \o Flatten(Tail(qq))
RECURSIVE Dedup(_, _)
Dedup(q, seen) == IF q = <<>> THEN <<>>
                  ELSE IF Head(q) \in seen THEN Dedup(Tail(q), seen) ELSE <<Head(q)>> \o Dedup(Tail(q), seen \cup {Head(q)})

ExtractOrder(node) == Dedup(Flatten(SortAlts(AltSeqs(node))), {})
=============================================================================
