SPECIFICATION Spec
CONSTANTS
  Dev = {}
INVARIANTS LawInv Emit
CHECK_DEADLOCK FALSE
