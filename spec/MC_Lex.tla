------------------------------- MODULE MC_Lex ------------------------------
(***************************************************************************)
(* Character-level exploration: every sequence of at most MaxLex lexemes   *)
(* over a vocabulary that covers C05's alphabet (ids of each kind, listed  *)
(* and unlisted -only / -or-later forms, deprecated ids, exception,        *)
(* unknown id, lower-case id and operator, LicenseRef / DocumentRef with   *)
(* and without a name, ':' '(' ')' AND OR WITH, an abutting '+', ' +', a   *)
(* foreign byte), joined by every admissible separator: one or two spaces, *)
(* or nothing where a punctuation character keeps the lexemes apart        *)
(* ("tight" spacing).                                                      *)
(*                                                                         *)
(* ScanInv: the character-level scanner (Lexer.tla, structured like        *)
(* scan.go) produces exactly what a lexeme-level reading predicts from the *)
(* KINDS of the lexemes - tokens, or the first error with its kind, its    *)
(* offset in the caller's string and its lexeme.  The two share no code:   *)
(* one walks characters and consults the tables, the other walks lexemes   *)
(* and knows their kinds.                                                  *)
(* PosInv (on the step machine): pos never moves backwards and never       *)
(* leaves the string; reported offsets lie inside the string [C15, C03].   *)
(* Emitted per text: validity (+ compound) for all three entry points, and *)
(* for unknown-id / missing-id errors the offset and lexeme.               *)
(***************************************************************************)
EXTENDS Render, MC_Lex_P

VARIABLES vPre, vSeq, vRun   \* vPre: a valid prefix text; vSeq: sequence of <<separator, vocabulary index>>; vRun: the model's run

Wordish(n) == Vocab[n].kd \notin {"op", "plus", "other"} \/ Vocab[n].t \in {"AND", "OR", "WITH"}
SepsFor(seq, n) == IF Len(seq) = 0 THEN {""}
                   ELSE {Seps[x] : x \in DOMAIN Seps} \cup
                        (IF Wordish(seq[Len(seq)][2]) /\ Wordish(n) THEN {} ELSE {""})

RECURSIVE TextOf(_, _)
TextOf(seq, n) == IF n > Len(seq) THEN "" ELSE seq[n][1] \o Vocab[seq[n][2]].t \o TextOf(seq, n + 1)

(* ----- lexeme-level reading -------------------------------------------- *)
\* returns [toks, err]; off = 0-based offset of lexeme n's first character
RECURSIVE Decl(_, _, _, _, _)
Decl(pre, seq, n, off, toks) ==
  IF n > Len(seq) THEN [toks |-> toks, err |-> NoErr]
  ELSE LET sep  == seq[n][1]
           lx   == Vocab[seq[n][2]]
           at   == off + Len(sep)                  \* offset of the lexeme text
           nxt  == at + Len(lx.t)
           nextIsGluedPlus == n < Len(seq) /\ seq[n + 1][1] = "" /\ Vocab[seq[n + 1][2]].kd = "plus"
           go(ts) == Decl(pre, seq, n + 1, nxt, toks \o ts)
           afterSpace == Len(sep) > 0 \/ (n = 1 /\ Len(pre) > 0 /\ CharAt(pre, Len(pre)) = " ")
       IN
       CASE lx.kd \in {"plainL", "lowerL", "listedOnly", "listedLater", "unlistedOnly", "depPlain"} -> go(<<Tok("L", lx.c)>>)
         [] lx.kd = "depFold" -> IF nextIsGluedPlus
                                 THEN Decl(pre, seq, n + 2, nxt + 1, toks \o <<Tok("L", lx.c \o "-or-later")>>)
                                 ELSE go(<<Tok("L", lx.c)>>)
         [] lx.kd = "unlistedLater" -> go(<<Tok("L", lx.c), Tok("+", "+")>>)
         [] lx.kd = "exc" -> go(<<Tok("E", lx.c)>>)
         [] lx.kd = "LR" -> go(<<Tok("LR", lx.c)>>)
         [] lx.kd = "DR" -> go(<<Tok("DR", lx.c)>>)
         [] lx.kd = "op" -> go(<<Tok(lx.t, lx.t)>>)
         [] lx.kd = "plus" -> IF afterSpace THEN [toks |-> toks, err |-> MkErr("space-before-plus", 0, "")]
                              ELSE go(<<Tok("+", "+")>>)
         [] lx.kd \in {"unknown", "lowerop"} -> [toks |-> toks, err |-> MkErr("unknown-id", at, lx.t)]
         [] lx.kd \in {"bareLR", "bareDR"} -> [toks |-> toks, err |-> MkErr("missing-id", nxt, "")]
         [] lx.kd = "other" -> [toks |-> toks, err |-> MkErr("missing-id", at, "")]

RunOf(pre, seq) == LET txt == pre \o TextOf(seq, 1) IN
                   [text |-> txt, lex |-> Lex(txt), decl |-> Decl(pre, seq, 1, Len(pre), Lex(pre).toks), p |-> Parse(txt)]

Init == vPre \in {Prefixes[n] : n \in DOMAIN Prefixes} /\ vSeq = <<>> /\ vRun = RunOf(vPre, <<>>)
Next == /\ Len(vSeq) < MaxLex
        /\ \E n \in DOMAIN Vocab : \E sp \in SepsFor(vSeq, n) :
              /\ vSeq' = Append(vSeq, <<sp, n>>)
              /\ vRun' = RunOf(vPre, vSeq')
        /\ vPre' = vPre
Spec == Init /\ [][Next]_<<vPre, vSeq, vRun>>

\* prefixes are lexically clean texts (they may be syntactically incomplete, e.g. end in "AND " or "(")
ASSUME \A n \in DOMAIN Prefixes : Lex(Prefixes[n]).err.kind = "none" /\ LexAmb(Lex(Prefixes[n])) = {}

ScanInv == /\ vRun.lex.err = vRun.decl.err
           /\ vRun.lex.err.kind = "none" => vRun.lex.toks = vRun.decl.toks
           /\ vRun.lex.err.kind # "none" => vRun.lex.toks = vRun.decl.toks   \* tokens before the error agree too

OffsetInv == vRun.lex.err.kind \in {"unknown-id", "missing-id"} =>
               /\ vRun.lex.err.off >= 0 /\ vRun.lex.err.off <= Len(vRun.text)
               /\ vRun.lex.err.kind = "unknown-id" =>
                    SubSeq(vRun.text, vRun.lex.err.off + 1, vRun.lex.err.off + Len(vRun.lex.err.lex)) = vRun.lex.err.lex

\* validity as the documented grammar has it, from the lexeme-level reading
DeclValid == vRun.decl.err.kind = "none" /\ Derives(vRun.decl.toks)
ValidInv  == vRun.text # "" => (vRun.p.ok = DeclValid)
NoPanic   == ~vRun.p.panic

Emit == vRun.text # "" =>
        /\ PrintT(ToJson([k |-> "str", s |-> vRun.text, valid |-> vRun.p.ok,
                          compound |-> (vRun.p.ok /\ vRun.p.node.op # "leaf"), amb |-> SetToSeqS(vRun.p.amb)]))
        /\ (vRun.p.err.kind \in {"unknown-id", "missing-id"} /\ vRun.p.amb = {}) =>
              PrintT(ToJson([k |-> "off", s |-> vRun.text, kind |-> vRun.p.err.kind, off |-> vRun.p.err.off, lex |-> vRun.p.err.lex]))
ASSUME LowFormsAgree
=============================================================================
