------------------------------ MODULE Versions -----------------------------
(***************************************************************************)
(* What "version family" and "later version" mean independently of the     *)
(* hand-maintained table (property C11): the NATURAL family of an id is    *)
(* its shape - the id with -only/-or-later stripped, split on '-', with    *)
(* its single version-number component replaced by '*' - and versions are  *)
(* ordered numerically, component by component, a shorter prefix first and *)
(* a trailing letter last:  2.0 < 2.0.1 < 2.1,  1.3a < 1.3c,  3.0 < 3.01.  *)
(***************************************************************************)
EXTENDS Terms

BareId(id) == StripOnly(StripOrLater(id))

\* digits ( "." digits )* [a-z]?
VersionBody(c) == IF Len(c) > 1 /\ CharAt(c, Len(c)) \in LowerSet THEN DropSuffix(c, 1) ELSE c
VersionLetter(c) == IF Len(c) > 1 /\ CharAt(c, Len(c)) \in LowerSet THEN CharAt(c, Len(c)) ELSE ""
IsVersion(c) == /\ Len(c) > 0
                /\ LET parts == Split(VersionBody(c), ".") IN
                   \A i \in DOMAIN parts : Len(parts[i]) > 0 /\ AllIn(parts[i], DigitSet)

Comps(id) == Split(BareId(id), "-")
VersionIdx(id) == {i \in DOMAIN Comps(id) : IsVersion(Comps(id)[i])}
HasShape(id) == Cardinality(VersionIdx(id)) = 1
Shape(id) == LET cs == Comps(id) IN [i \in DOMAIN cs |-> IF i \in VersionIdx(id) THEN "*" ELSE cs[i]]
VersionOf(id) == LET cs == Comps(id) IN cs[CHOOSE i \in VersionIdx(id) : TRUE]

RECURSIVE ParseNat(_, _)
ParseNat(s, acc) == IF Len(s) = 0 THEN acc ELSE ParseNat(SubSeq(s, 2, Len(s)), acc * 10 + DigitVal[CharAt(s, 1)])
NumParts(v) == LET parts == Split(VersionBody(v), ".") IN [i \in DOMAIN parts |-> ParseNat(parts[i], 0)]
LetterRank(v) == LET c == VersionLetter(v) IN IF c = "" THEN 0 ELSE CHOOSE i \in 1..26 : CharAt(LowerStr, i) = c

RECURSIVE SeqLess(_, _, _)
SeqLess(a, b, i) == IF i > Len(a) THEN i <= Len(b)                \* a is a proper prefix of b
                    ELSE IF i > Len(b) THEN FALSE
                    ELSE IF a[i] # b[i] THEN a[i] < b[i]
                    ELSE SeqLess(a, b, i + 1)
VerLess(u, v) == LET a == NumParts(u) b == NumParts(v) IN
                 SeqLess(a, b, 1) \/ (a = b /\ LetterRank(u) < LetterRank(v))
VerLeq(u, v) == VerLess(u, v) \/ (NumParts(u) = NumParts(v) /\ LetterRank(u) = LetterRank(v))

SameNaturalFamily(x, y) == HasShape(x) /\ HasShape(y) /\ Shape(x) = Shape(y)
=============================================================================
