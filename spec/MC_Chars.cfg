SPECIFICATION Spec
CONSTANTS
  Dev = {}
INVARIANTS PosInv OffsetInv NoPanic Emit
CHECK_DEADLOCK FALSE
