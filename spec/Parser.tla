------------------------------- MODULE Parser ------------------------------
(***************************************************************************)
(* The parser (spdxexp/parse.go) over a token sequence, twice:             *)
(*                                                                         *)
(*  1. operationally - a recursive descent with one operator per Go        *)
(*     function (parseExpression, parseAnd, parseAtom,                     *)
(*     parseParenthesizedExpression, parseLicenseRef, parseLicense,        *)
(*     parseWith) over a TOTAL cursor: Cls(t, i) is "EOF" past the end,    *)
(*     which is the design obligation behind "never panics" (C03);         *)
(*                                                                         *)
(*  2. declaratively - the documented grammar as a position-set            *)
(*     recogniser that shares nothing with the descent:                    *)
(*        expr     := and-expr { OR and-expr }                             *)
(*        and-expr := atom { AND atom }                                    *)
(*        atom     := ( expr ) | [DR :] LR | L [+] [WITH E]                *)
(*                                                                         *)
(* GrammarAgrees (checked by TLC over every token sequence up to a bound)  *)
(* says the two accept the same language.                                  *)
(***************************************************************************)
EXTENDS Lexer

Cls(t, i) == IF i >= 1 /\ i <= Len(t) THEN t[i].c ELSE "EOF"
Val(t, i) == IF i >= 1 /\ i <= Len(t) THEN t[i].v ELSE ""

(* ----- trees and terms ------------------------------------------------- *)
LicTerm(id, plus, exc) == [kind |-> "lic", id |-> id, plus |-> plus \/ HasSuffix(id, "-or-later"),
                           exc |-> exc, doc |-> ""]
RefTerm(doc, ref)      == [kind |-> "ref", id |-> ref, plus |-> FALSE, exc |-> "", doc |-> doc]
Leaf(term)     == [op |-> "leaf", term |-> term]
Bin(op, l, r)  == [op |-> op, l |-> l, r |-> r]

PFail    == [ok |-> FALSE, node |-> Leaf(RefTerm("", "")), next |-> 0]
POk(n,j) == [ok |-> TRUE, node |-> n, next |-> j]

(* ----- 1. the descent --------------------------------------------------- *)
\* "PanicOnEOF" reproduces the historical nil dereference: peek() at end of stream
PEEK_PANIC == [ok |-> FALSE, node |-> Leaf(RefTerm("", "PANIC")), next |-> 0]
IsPanic(r) == ~r.ok /\ r.node.term.id = "PANIC"
PeekOk(t, i) == i <= Len(t) \/ "PeekUnguarded" \notin Dev

\* parseWith: WITH must be followed by an exception token
PWith(t, i) == \* returns <<ok, exc, next>>
  IF Cls(t, i) # "WITH" THEN <<TRUE, "", i>>
  ELSE IF Cls(t, i + 1) = "E" THEN <<TRUE, Val(t, i + 1), i + 2>>
  ELSE <<FALSE, "", 0>>

\* parseLicense: L ['+'] [WITH E]
PLicense(t, i) ==
  IF Cls(t, i) # "L" THEN PFail
  ELSE LET plus == Cls(t, i + 1) = "+"
           j    == IF plus THEN i + 2 ELSE i + 1
           w    == PWith(t, j)
       IN IF ~w[1] THEN (IF j + 1 > Len(t) /\ ~PeekOk(t, j + 1) THEN PEEK_PANIC ELSE PFail)
          ELSE POk(Leaf(LicTerm(Val(t, i), plus, w[2])), w[3])

\* parseLicenseRef: [DR ':'] LR
PLicenseRef(t, i) ==
  IF Cls(t, i) = "DR" THEN
       IF Cls(t, i + 1) = ":" THEN
            IF Cls(t, i + 2) = "LR" THEN POk(Leaf(RefTerm(Val(t, i), Val(t, i + 2))), i + 3)
            ELSE IF ~PeekOk(t, i + 2) THEN PEEK_PANIC ELSE PFail
       ELSE IF ~PeekOk(t, i + 1) THEN PEEK_PANIC ELSE PFail
  ELSE IF Cls(t, i) = "LR" THEN POk(Leaf(RefTerm("", Val(t, i))), i + 1)
  ELSE PFail

RECURSIVE PExpr(_, _), PAnd(_, _), PAtom(_, _), PParen(_, _)

\* parseParenthesizedExpression
PParen(t, i) ==
  LET r == PExpr(t, i + 1) IN
  IF ~r.ok THEN r
  ELSE IF Cls(t, r.next) = ")" THEN POk(r.node, r.next + 1) ELSE PFail

\* parseAtom: paren | ref | license, in the code's order
PAtom(t, i) ==
  IF ~PeekOk(t, i) THEN PEEK_PANIC
  ELSE IF Cls(t, i) = "(" THEN PParen(t, i)
  ELSE IF Cls(t, i) \in {"DR", "LR"} THEN PLicenseRef(t, i)
  ELSE IF Cls(t, i) = "L" THEN PLicense(t, i)
  ELSE PFail

\* parseAnd: atom [AND and-expr]   (right recursive, like the code)
PAnd(t, i) ==
  LET l == PAtom(t, i) IN
  IF ~l.ok THEN l
  ELSE IF Cls(t, l.next) # "AND" THEN l
  ELSE IF l.next + 1 > Len(t) THEN PFail
  ELSE LET r == PAnd(t, l.next + 1) IN
       IF ~r.ok THEN r ELSE POk(Bin("and", l.node, r.node), r.next)

\* parseExpression: and-expr [OR expr]
PExpr(t, i) ==
  LET l == PAnd(t, i) IN
  IF ~l.ok THEN l
  ELSE IF Cls(t, l.next) # "OR" THEN l
  ELSE IF l.next + 1 > Len(t) THEN PFail
  ELSE LET r == PExpr(t, l.next + 1) IN
       IF ~r.ok THEN r ELSE POk(Bin("or", l.node, r.node), r.next)

\* parseTokens: non-empty, one expression, nothing left over
PTokens(t) ==
  IF Len(t) = 0 THEN PFail
  ELSE LET r == PExpr(t, 1) IN
       IF ~r.ok THEN r ELSE IF r.next = Len(t) + 1 THEN r ELSE PFail

PAccepts(t) == PTokens(t).ok

(* ----- 2. the reference grammar ---------------------------------------- *)
RECURSIVE ExprEnds(_, _), AndEnds(_, _), AtomEnds(_, _)
AtomEnds(t, i) ==
  IF i > Len(t) THEN {} ELSE
     (IF t[i].c = "(" THEN {j + 1 : j \in {k \in ExprEnds(t, i + 1) : k <= Len(t) /\ t[k].c = ")"}} ELSE {})
     \cup (IF t[i].c = "LR" THEN {i + 1} ELSE {})
     \cup (IF t[i].c = "DR" /\ i + 2 <= Len(t) /\ t[i + 1].c = ":" /\ t[i + 2].c = "LR" THEN {i + 3} ELSE {})
     \cup (IF t[i].c = "L"
           THEN LET p == {i + 1} \cup (IF i + 1 <= Len(t) /\ t[i + 1].c = "+" THEN {i + 2} ELSE {})
                IN p \cup {q + 2 : q \in {q \in p : q + 1 <= Len(t) /\ t[q].c = "WITH" /\ t[q + 1].c = "E"}}
           ELSE {})
AndEnds(t, i)  == LET a == AtomEnds(t, i) IN
                  a \cup UNION {IF j <= Len(t) /\ t[j].c = "AND" THEN AndEnds(t, j + 1) ELSE {} : j \in a}
ExprEnds(t, i) == LET a == AndEnds(t, i) IN
                  a \cup UNION {IF j <= Len(t) /\ t[j].c = "OR" THEN ExprEnds(t, j + 1) ELSE {} : j \in a}
Derives(t) == Len(t) > 0 /\ (Len(t) + 1) \in ExprEnds(t, 1)

GrammarAgrees(t) == PAccepts(t) <=> Derives(t)
=============================================================================
