----------------------------- MODULE MC_Lists_P ----------------------------
\* Parameters of MC_Lists (overwritten by the check)
MaxList == 2
Pool  == <<"MIT", "mit", "MIT AND ISC", "(MIT)", "FOO", "MIT AND", "(", "">>
Exprs == <<"MIT OR ISC", "MIT OR", "">>
=============================================================================
