----------------------------- MODULE MC_Ranges -----------------------------
(***************************************************************************)
(* The shipped family table (spdxlicenses.LicenseRanges(), exported from   *)
(* the working tree) against the well-formedness clauses of C11.  One      *)
(* state per family; each clause that fails is REPORTED with the ids       *)
(* involved (the run itself does not stop), so that every defect of the    *)
(* table is listed, each identified by its ids.                            *)
(*                                                                         *)
(*   Listed       every entry is on the active or deprecated list          *)
(*   OnePosition  every entry sits at exactly one position of the table    *)
(*   OneShape     all entries of a family have one natural shape           *)
(*   Ascending    steps are in strictly ascending natural version order,   *)
(*                one version per step (the inert X-or-later aliases kept  *)
(*                in a top step are exempt, R6)                            *)
(*   Complete     every listed id of the family's shape is in the family;  *)
(*                a listed X-only sits in the same step as X               *)
(*   Disjoint     no other family has the same shape                       *)
(***************************************************************************)
EXTENDS Versions, Api

VARIABLE vFam

NF == Len(Ranges)
Init == vFam = 0
Next == vFam < NF /\ vFam' = vFam + 1
Spec == Init /\ [][Next]_vFam

StepIds(f, st)  == {Ranges[f][st][k] : k \in DOMAIN Ranges[f][st]}
Members(f)      == UNION {StepIds(f, st) : st \in DOMAIN Ranges[f]}
Proper(f, st)   == {x \in StepIds(f, st) : ~HasSuffix(x, "-or-later")}       \* R6
ProperMembers(f) == UNION {Proper(f, st) : st \in DOMAIN Ranges[f]}
Uniform(f)      == /\ \A x \in ProperMembers(f) : HasShape(x)
                   /\ \A x, y \in ProperMembers(f) : Shape(x) = Shape(y)
FamShape(f)     == Shape(CHOOSE x \in ProperMembers(f) : TRUE)
StepVersions(f, st) == {VersionOf(x) : x \in Proper(f, st)}

BadListed(f)      == {x \in Members(f) : x \notin LicenseIds}
BadOnePosition(f) == {x \in Members(f) : Cardinality(Pos(x)) # 1}
BadOneShape(f)    == IF Uniform(f) THEN {} ELSE ProperMembers(f)
BadAscending(f)   == IF ~Uniform(f) THEN {} ELSE
                     UNION {IF Cardinality(StepVersions(f, st)) > 1 THEN Proper(f, st) ELSE {} : st \in DOMAIN Ranges[f]}
                     \cup UNION {IF \E u \in StepVersions(f, st), v \in StepVersions(f, st + 1) : ~VerLess(u, v)
                                 THEN Proper(f, st) \cup Proper(f, st + 1) ELSE {} : st \in 1..(Len(Ranges[f]) - 1)}
Listable          == TLCEval({x \in LicenseIds : ~HasSuffix(x, "+") /\ ~HasSuffix(x, "-or-later")})
ShapeTab          == TLCEval([x \in Listable |-> IF HasShape(x) THEN Shape(x) ELSE <<>>])
BadComplete(f)    == IF ~Uniform(f) THEN {} ELSE
                     {x \in Listable : ShapeTab[x] = FamShape(f) /\ x \notin Members(f)}
                     \cup {x \o "-only" : x \in {y \in ProperMembers(f) : (y \o "-only") \in LicenseIds /\
                                                  \A st \in DOMAIN Ranges[f] : y \in StepIds(f, st) => (y \o "-only") \notin StepIds(f, st)}}
BadDisjoint(f)    == IF ~Uniform(f) THEN {} ELSE
                     UNION {IF g # f /\ Uniform(g) /\ FamShape(g) = FamShape(f) THEN ProperMembers(g) ELSE {} : g \in DOMAIN Ranges}

SetToSeq(S) == LET RECURSIVE Go(_)
                   Go(X) == IF X = {} THEN <<>> ELSE LET x == CHOOSE y \in X : TRUE IN <<x>> \o Go(X \ {x})
               IN Go(S)
Say(name, f, bad) == bad = {} \/ PrintT(ToJson([k |-> "tableinv", inv |-> name, fam |-> f, ids |-> SetToSeq(bad)]))

Report == vFam > 0 =>
          /\ Say("Listed", vFam, BadListed(vFam))
          /\ Say("OnePosition", vFam, BadOnePosition(vFam))
          /\ Say("OneShape", vFam, BadOneShape(vFam))
          /\ Say("Ascending", vFam, BadAscending(vFam))
          /\ Say("Complete", vFam, BadComplete(vFam))
          /\ Say("Disjoint", vFam, BadDisjoint(vFam))
          /\ PrintT(ToJson([k |-> "tally", tag |-> "families", n |-> 1]))
ASSUME LowFormsAgree
=============================================================================
