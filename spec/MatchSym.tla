------------------------------ MODULE MatchSym ------------------------------
(***************************************************************************)
(* C02's matching rule is symmetric for EVERY family table, not only the   *)
(* shipped one: a TLAPS proof over an arbitrary position function Where    *)
(* (id -> set of <<family, step>> pairs) and an arbitrary Base function.   *)
(* The rule is MatchDecl of Terms.tla, restated over abstract Where/Base.  *)
(***************************************************************************)
EXTENDS Integers, TLAPS

CONSTANTS Where(_), Base(_), Terms

ASSUME TermsType == \A t \in Terms : /\ t.kind \in {"lic", "ref"}
                                     /\ t.plus \in BOOLEAN
ASSUME WhereType == \A t \in Terms : Where(Base(t.id)) \subseteq (Int \X Int)

Match(a, b) ==
  \/ a.kind = "ref" /\ b.kind = "ref" /\ a.id = b.id /\ a.doc = b.doc
  \/ /\ a.kind = "lic" /\ b.kind = "lic" /\ a.exc = b.exc
     /\ \/ Base(a.id) = Base(b.id)
        \/ \E p \in Where(Base(a.id)), q \in Where(Base(b.id)) :
              /\ p[1] = q[1]
              /\ \/ ~a.plus /\ ~b.plus /\ p[2] = q[2]
                 \/ a.plus /\ ~b.plus /\ q[2] >= p[2]
                 \/ ~a.plus /\ b.plus /\ p[2] >= q[2]
                 \/ a.plus /\ b.plus

THEOREM Symmetric == \A a, b \in Terms : Match(a, b) <=> Match(b, a)
<1> SUFFICES ASSUME NEW a \in Terms, NEW b \in Terms PROVE Match(a, b) => Match(b, a)
    OBVIOUS
<1>1 ASSUME a.kind = "ref" /\ b.kind = "ref" /\ a.id = b.id /\ a.doc = b.doc PROVE Match(b, a)
    BY <1>1 DEF Match
<1>2 ASSUME a.kind = "lic", b.kind = "lic", a.exc = b.exc, Base(a.id) = Base(b.id) PROVE Match(b, a)
    BY <1>2 DEF Match
<1>3 ASSUME a.kind = "lic", b.kind = "lic", a.exc = b.exc,
            NEW p \in Where(Base(a.id)), NEW q \in Where(Base(b.id)),
            p[1] = q[1],
            \/ ~a.plus /\ ~b.plus /\ p[2] = q[2]
            \/ a.plus /\ ~b.plus /\ q[2] >= p[2]
            \/ ~a.plus /\ b.plus /\ p[2] >= q[2]
            \/ a.plus /\ b.plus
     PROVE Match(b, a)
    <2>1 \E q2 \in Where(Base(b.id)), p2 \in Where(Base(a.id)) :
              /\ q2[1] = p2[1]
              /\ \/ ~b.plus /\ ~a.plus /\ q2[2] = p2[2]
                 \/ b.plus /\ ~a.plus /\ p2[2] >= q2[2]
                 \/ ~b.plus /\ a.plus /\ q2[2] >= p2[2]
                 \/ b.plus /\ a.plus
        BY <1>3
    <2> QED BY <2>1, <1>3 DEF Match
<1> QED BY <1>1, <1>2, <1>3 DEF Match

THEOREM Reflexive == \A a \in Terms : Match(a, a)
  BY TermsType DEF Match
=============================================================================
