------------------------------- MODULE MC_Mut -------------------------------
(***************************************************************************)
(* Mutations of valid expressions (C03's quantifier: "every prefix and     *)
(* every single-token deletion/insertion of every valid expression").      *)
(* Trees grow as in MC_Tree; from each tree one Mutate step produces       *)
(*   Truncate(k)      the first k characters of its text                   *)
(*   DeleteTok(i)     its token sequence without token i                   *)
(*   InsertTok(i, x)  its token sequence with token x inserted before i    *)
(* (token edits are rendered back to text in loose spacing).  The model's  *)
(* own pipeline must stay total on all of them (NoPanic) and agree with    *)
(* the reference grammar (GrammarInv); every mutant goes through the three *)
(* real entry points.                                                      *)
(***************************************************************************)
EXTENDS TreeOps

VARIABLES vTree, vMut   \* vMut: [kind, text, p] ; kind "none" while the tree is still growing

InsertToks == <<Tok("(", "("), Tok(")", ")"), Tok("AND", "AND"), Tok("OR", "OR"), Tok("WITH", "WITH"), Tok("+", "+"),
                Tok(":", ":"), Tok("L", LeafTerm[1].id), Tok("LR", "z"), Tok("DR", "d")>>

None == [kind |-> "none", text |-> "", p |-> Parse("")]
Init == \E k \in 1..NL : vTree = LLeaf(k) /\ vMut = None
Grow == /\ vMut.kind = "none" /\ NLeaves(vTree) < MaxLeaves
        /\ \E idx \in 1..NLeaves(vTree), o \in {"and", "or"}, k \in 1..NL :
              vTree' = Grown(vTree, idx, Bin(o, LeafAt(vTree, idx), LLeaf(k)))
        /\ vMut' = None
BaseText == RenderMin(WithTexts(vTree))
BaseToks == Lex(BaseText).toks
Mutate == /\ vMut.kind = "none"
          /\ vTree' = vTree
          /\ \/ \E k \in 0..(Len(BaseText) - 1) :
                   LET t == SubSeq(BaseText, 1, k) IN vMut' = [kind |-> "truncate", text |-> t, p |-> Parse(t)]
             \/ \E n \in DOMAIN BaseToks :
                   LET t == RenderToks(SubSeq(BaseToks, 1, n - 1) \o SubSeq(BaseToks, n + 1, Len(BaseToks)), "loose")
                   IN vMut' = [kind |-> "delete", text |-> t, p |-> Parse(t)]
             \/ \E n \in 1..(Len(BaseToks) + 1), x \in DOMAIN InsertToks :
                   LET t == RenderToks(SubSeq(BaseToks, 1, n - 1) \o <<InsertToks[x]>> \o SubSeq(BaseToks, n, Len(BaseToks)), "loose")
                   IN vMut' = [kind |-> "insert", text |-> t, p |-> Parse(t)]
Next == Grow \/ Mutate
Spec == Init /\ [][Next]_<<vTree, vMut>>

NoPanic == ~vMut.p.panic
\* token edits keep the text inside the documented vocabulary: there the model's verdict is the grammar's
GrammarInv == (vMut.kind \in {"delete", "insert"} /\ vMut.text # "") =>
                 LET st == Lex(vMut.text) IN
                 (st.err.kind = "none" => (vMut.p.ok <=> Derives(st.toks))) /\ (st.err.kind # "none" => ~vMut.p.ok)
Emit == (vMut.kind # "none") =>
        PrintT(ToJson([k |-> "str", s |-> vMut.text, valid |-> vMut.p.ok,
                       compound |-> (vMut.p.ok /\ vMut.p.node.op # "leaf"), amb |-> SetToSeqS(vMut.p.amb)]))
=============================================================================
