----------------------------- MODULE SpdxConc_P -----------------------------
\* Parameters of SpdxConc (overwritten by the check): one call per goroutine.  Calls share the
\* caller-owned slices: "allowed" (Satisfies) and "licenses" (ValidateLicenses) are indices into Mem.
Mem   == [allowed |-> <<"MIT", "Apache-2.0">>, licenses |-> <<"MIT", "FOO", "MIT AND">>]
Calls == << [fn |-> "Satisfies", e |-> "MIT OR ISC", arg |-> "allowed"],
            [fn |-> "ValidateLicenses", e |-> "", arg |-> "licenses"] >>
=============================================================================
