------------------------------ MODULE MC_Spell -----------------------------
(***************************************************************************)
(* Equivalent spellings (C08).  For every listed id X the pairs            *)
(*        X  ~  X-only          X+  ~  X-or-later                          *)
(* are, whenever both spellings are valid, put into every context: as the  *)
(* expression term against each related term, as the allowed entry for     *)
(* each related term, with no / the same / another exception on either     *)
(* side, and inside the syntactic contexts ( s ), ( s AND P ), P OR s,     *)
(* s AND P (the last ones place the spelling directly before ')' and       *)
(* before an operator); X ~ X-only also directly before an abutting '+'.   *)
(*                                                                         *)
(* Interchangeable (invariant): the model - scanner, parser, matcher over  *)
(* the SHIPPED table - predicts the same validity and verdict for both     *)
(* spellings of a pair in every context (a table gap such as a missing     *)
(* X-only entry fails here).  ActiveBoth: for every ACTIVE id both         *)
(* spellings of both pairs are valid.  Every context is emitted as a       *)
(* "same" record: the two real calls must agree with each other and with   *)
(* the model.                                                              *)
(***************************************************************************)
EXTENDS Render, MC_Spell_P

VARIABLES vId, vRel

Init == vId = 0 /\ vRel = 0
PickId  == vId = 0 /\ vRel = 0 /\ vId' \in DOMAIN Ids /\ vRel' = 0
PickRel == vId > 0 /\ vRel = 0 /\ vId' = vId /\ vRel' \in DOMAIN Related[vId]
Next == PickId \/ PickRel
Spec == Init /\ [][Next]_<<vId, vRel>>

X == Ids[vId]
Pairs(x) == << <<x, x \o "-only">>, <<x \o "+", x \o "-or-later">> >>
BothValid(p) == Valid(p[1]) /\ Valid(p[2]) /\ InOracle(p[1]) /\ InOracle(p[2])

\* R1: the -only / -or-later suffix is documented for ids on the ACTIVE list that do not already carry one
Suffixable(x) == x \in ActiveSet /\ ~HasSuffix(x, "-only") /\ ~HasSuffix(x, "-or-later")
ActiveBoth == (vId > 0 /\ vRel = 0 /\ Suffixable(X)) => \A n \in 1..2 : Valid(Pairs(X)[n][1]) /\ Valid(Pairs(X)[n][2])

WithOpts == <<"", " WITH " \o Exc1, " WITH " \o Exc2>>

\* contexts in which spelling s meets the related text o: <<expression, allowed list>>
TermCtx(s, o) ==
  {<<s \o WithOpts[i], <<o \o WithOpts[j]>> >> : i \in 1..2, j \in 1..3}
  \cup {<<o \o WithOpts[j], <<s \o WithOpts[i]>> >> : i \in 1..2, j \in 1..3}
\* syntactic contexts (index -> text), each asked against the allowed list <<s-free universe>>
\* (the last four put a SECOND -or-later form - unlisted, and a listed GNU one - before and after the spelling)
SynCtx(s) == << "(" \o s \o ")", "(" \o s \o " AND " \o Plain \o ")", Plain \o " OR " \o s, s \o " AND " \o Plain,
                "(" \o Plain \o " OR " \o s \o ") AND " \o Plain, s \o " WITH " \o Exc1 \o " OR " \o Plain,
                s \o " AND " \o Plain \o "-or-later", Plain \o "-or-later OR " \o s,
                Gnu \o " AND " \o s, s \o " OR " \o Gnu \o " WITH " \o Exc1,
                "LicenseRef-" \o X \o "-or-later OR " \o s, "DocumentRef-" \o X \o "-only:LicenseRef-" \o X \o "-or-later AND (" \o s \o ")" >>

Res(c) == SatisfiesSpec(c[1], c[2])

\* the model's prediction for spelling 1 and 2 in "the same" context (contexts are generated in the same order)
PairOk(p, o) ==
  /\ \A i \in 1..2, j \in 1..3 :
        /\ Res(<<p[1] \o WithOpts[i], <<o \o WithOpts[j]>> >>) = Res(<<p[2] \o WithOpts[i], <<o \o WithOpts[j]>> >>)
        /\ Res(<<o \o WithOpts[j], <<p[1] \o WithOpts[i]>> >>) = Res(<<o \o WithOpts[j], <<p[2] \o WithOpts[i]>> >>)
  /\ \A n \in DOMAIN SynCtx(p[1]) :
        /\ Valid(SynCtx(p[1])[n]) = Valid(SynCtx(p[2])[n])
        /\ Res(<<SynCtx(p[1])[n], <<o, Plain>> >>) = Res(<<SynCtx(p[2])[n], <<o, Plain>> >>)
  \* three entries: the spelling under one exception, the second spelling under ANOTHER exception, an entry that sorts last
  /\ \A ex \in {<<Exc1, Exc2>>, <<Exc2, Exc1>>} :     \* (either exception may be the one that sorts second)
        Res(<<p[2] \o " WITH " \o ex[2], <<p[1] \o " WITH " \o ex[1], p[2] \o " WITH " \o ex[2], Last>> >>)
          = Res(<<p[2] \o " WITH " \o ex[2], <<p[2] \o " WITH " \o ex[1], p[2] \o " WITH " \o ex[2], Last>> >>)
  \* two-entry allowed lists holding the spelling next to the SAME id under an exception, in both orders
  /\ \A i \in 1..2 :
        /\ Res(<<X \o " WITH " \o Exc1, <<p[1], X \o " WITH " \o Exc1>> >>) = Res(<<X \o " WITH " \o Exc1, <<p[2], X \o " WITH " \o Exc1>> >>)
        /\ Res(<<p[i], <<X \o " WITH " \o Exc1, p[1]>> >>) = Res(<<p[i], <<X \o " WITH " \o Exc1, p[2]>> >>)

\* X ~ X-only directly before an abutting '+' (R2: 'X-only+' is in the grammar; the second pair would give a double plus)
PlusCtx(s, o) == << <<s \o "+", <<o>> >>, <<o, <<s \o "+">> >>, <<s \o "+ WITH " \o Exc1, <<o \o " WITH " \o Exc1>> >>,
                    <<"(" \o s \o "+) AND " \o Plain, <<o, Plain>> >>, <<o \o " AND " \o Plain, <<Plain, s \o "+">> >> >>
PlusOk(p, o) == \A n \in DOMAIN PlusCtx(p[1], o) :
                   /\ Valid(PlusCtx(p[1], o)[n][1]) = Valid(PlusCtx(p[2], o)[n][1])
                   /\ Res(PlusCtx(p[1], o)[n]) = Res(PlusCtx(p[2], o)[n])

Interchangeable ==
  (vId > 0 /\ vRel > 0) =>
     /\ \A n \in 1..2 : BothValid(Pairs(X)[n]) => PairOk(Pairs(X)[n], Related[vId][vRel])
     /\ BothValid(Pairs(X)[1]) => PlusOk(Pairs(X)[1], Related[vId][vRel])

ResJ(c) == LET r == Res(c) IN [sat |-> r.sat, err |-> r.err]
\* R9: where an id sits at two table positions the table defines no single answer; only the relation is asserted
PosDep(c1, c2) == ~SatPositionIndependent(c1[1], c1[2]) \/ ~SatPositionIndependent(c2[1], c2[2])
CallJ(c) == [e |-> c[1], a |-> c[2]]
EmitPair(p, o) ==
  /\ \A i \in 1..2, j \in 1..3 :
       LET c1 == <<p[1] \o WithOpts[i], <<o \o WithOpts[j]>> >>
           c2 == <<p[2] \o WithOpts[i], <<o \o WithOpts[j]>> >>
           d1 == <<o \o WithOpts[j], <<p[1] \o WithOpts[i]>> >>
           d2 == <<o \o WithOpts[j], <<p[2] \o WithOpts[i]>> >>
       IN /\ PrintT(ToJson([k |-> "same", calls |-> <<CallJ(c1), CallJ(c2)>>, exp |-> <<ResJ(c1), ResJ(c2)>>, posdep |-> PosDep(c1, c2)]))
          /\ PrintT(ToJson([k |-> "same", calls |-> <<CallJ(d1), CallJ(d2)>>, exp |-> <<ResJ(d1), ResJ(d2)>>, posdep |-> PosDep(d1, d2)]))
  /\ \A n \in DOMAIN SynCtx(p[1]) :
       LET c1 == <<SynCtx(p[1])[n], <<o, Plain>> >>
           c2 == <<SynCtx(p[2])[n], <<o, Plain>> >>
       IN PrintT(ToJson([k |-> "same", calls |-> <<CallJ(c1), CallJ(c2)>>, exp |-> <<ResJ(c1), ResJ(c2)>>, posdep |-> PosDep(c1, c2)]))
  /\ \A ex \in {<<Exc1, Exc2>>, <<Exc2, Exc1>>} :
       LET c1 == <<p[2] \o " WITH " \o ex[2], <<p[1] \o " WITH " \o ex[1], p[2] \o " WITH " \o ex[2], Last>> >>
           c2 == <<p[2] \o " WITH " \o ex[2], <<p[2] \o " WITH " \o ex[1], p[2] \o " WITH " \o ex[2], Last>> >>
       IN PrintT(ToJson([k |-> "same", calls |-> <<CallJ(c1), CallJ(c2)>>, exp |-> <<ResJ(c1), ResJ(c2)>>, posdep |-> PosDep(c1, c2)]))
  /\ LET xe == X \o " WITH " \o Exc1
         c1 == <<xe, <<p[1], xe>> >>   c2 == <<xe, <<p[2], xe>> >>
         d1 == <<p[1], <<xe, p[1]>> >> d2 == <<p[1], <<xe, p[2]>> >>
     IN /\ PrintT(ToJson([k |-> "same", calls |-> <<CallJ(c1), CallJ(c2)>>, exp |-> <<ResJ(c1), ResJ(c2)>>, posdep |-> PosDep(c1, c2)]))
        /\ PrintT(ToJson([k |-> "same", calls |-> <<CallJ(d1), CallJ(d2)>>, exp |-> <<ResJ(d1), ResJ(d2)>>, posdep |-> PosDep(d1, d2)]))

Emit ==
  /\ (vId > 0 /\ vRel = 0) =>
        \A n \in 1..2 : \A m \in 1..2 :
           LET s == Pairs(X)[n][m] IN
           PrintT(ToJson([k |-> "str", s |-> s, valid |-> Valid(s), compound |-> FALSE, amb |-> SetToSeqS(Parse(s).amb)]))
  /\ (vId > 0 /\ vRel > 0) =>
        \A n \in 1..2 : BothValid(Pairs(X)[n]) => EmitPair(Pairs(X)[n], Related[vId][vRel])
  /\ (vId > 0 /\ vRel > 0 /\ BothValid(Pairs(X)[1])) =>
        \A n \in DOMAIN PlusCtx(X, X) :
           LET c1 == PlusCtx(Pairs(X)[1][1], Related[vId][vRel])[n]
               c2 == PlusCtx(Pairs(X)[1][2], Related[vId][vRel])[n]
           IN PrintT(ToJson([k |-> "same", calls |-> <<CallJ(c1), CallJ(c2)>>, exp |-> <<ResJ(c1), ResJ(c2)>>, posdep |-> PosDep(c1, c2)]))

ASSUME LowFormsAgree
=============================================================================
