SPECIFICATION Spec
CONSTANTS
  Dev = {}
INVARIANTS MemInv OutInv ResInv Emit
CHECK_DEADLOCK FALSE
