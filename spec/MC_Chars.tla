------------------------------ MODULE MC_Chars ------------------------------
(***************************************************************************)
(* Raw concatenations: every string made of at most MaxSyms symbols glued  *)
(* together WITHOUT separators - single characters ( ) + : space - x, a    *)
(* foreign byte, and multi-character fragments (a listed id, the -only /   *)
(* -or-later suffixes, a Ref prefix, operator words).  This is the space   *)
(* of arbitrary gluing: ids running into operators, suffix upon suffix,    *)
(* '+' after anything, prefixes without names.                             *)
(*                                                                         *)
(* Checked on the model itself: the scanner never leaves the string and    *)
(* never moves backwards (PosInv, on the step machine: every intermediate  *)
(* state of LexRun), reported offsets lie inside the caller's string, the  *)
(* parser never needs a token past the end (NoPanic).  Every string goes   *)
(* to all three real entry points: no panic, mutual agreement, and - where *)
(* the model marks the input as inside the documented vocabulary - the     *)
(* model's validity.                                                       *)
(***************************************************************************)
EXTENDS Render, MC_Chars_P

VARIABLES vText, vLen, vRun

RunOf(t) == [p |-> Parse(t)]
Init == vText = "" /\ vLen = 0 /\ vRun = RunOf("")
Next == /\ vLen < MaxSyms
        /\ \E n \in DOMAIN Symbols : vText' = vText \o Symbols[n] /\ vRun' = RunOf(vText')
        /\ vLen' = vLen + 1
Spec == Init /\ [][Next]_<<vText, vLen, vRun>>

\* every intermediate scanner state: position inside [1, Len+1], monotone
RECURSIVE Trail(_)
Trail(st) == IF LexDone(st) THEN <<st>> ELSE <<st>> \o Trail(LexStep(st))
PosInv == LET tr == Trail(LexInit(vText)) IN
          /\ \A n \in DOMAIN tr : tr[n].pos >= 1 /\ tr[n].pos <= Len(vText) + 1
          /\ \A n \in 1..(Len(tr) - 1) : tr[n].pos <= tr[n + 1].pos /\ Len(tr[n].toks) <= Len(tr[n + 1].toks)
OffsetInv == vRun.p.err.kind \in {"unknown-id", "missing-id"} =>
               /\ vRun.p.err.off >= 0 /\ vRun.p.err.off <= Len(vText)
               /\ vRun.p.err.kind = "unknown-id" =>
                     SubSeq(vText, vRun.p.err.off + 1, vRun.p.err.off + Len(vRun.p.err.lex)) = vRun.p.err.lex
NoPanic == ~vRun.p.panic

\* distinct symbol sequences can spell the same text; VIEW keeps one state per text
View == <<vText, vLen>>
Emit == vText # "" =>
        /\ PrintT(ToJson([k |-> "str", s |-> vText, valid |-> vRun.p.ok,
                          compound |-> (vRun.p.ok /\ vRun.p.node.op # "leaf"), amb |-> SetToSeqS(vRun.p.amb)]))
        /\ (vRun.p.err.kind \in {"unknown-id", "missing-id"} /\ vRun.p.amb = {}) =>
              PrintT(ToJson([k |-> "off", s |-> vText, kind |-> vRun.p.err.kind, off |-> vRun.p.err.off, lex |-> vRun.p.err.lex]))
ASSUME LowFormsAgree
=============================================================================
