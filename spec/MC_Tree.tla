------------------------------ MODULE MC_Tree ------------------------------
(***************************************************************************)
(* Expression trees.  The state is a tree whose leaves are labels (indices *)
(* into LeafTexts); Grow replaces a leaf x by (x op y).  Every tree shape, *)
(* depth, AND/OR mix and repetition of labels with at most MaxLeaves       *)
(* leaves is reachable.  Each tree is rendered to text twice (minimal and  *)
(* full parentheses) and pushed through the model's own pipeline.          *)
(*                                                                         *)
(* Checked in every state, for EVERY non-empty subset A of Universe:       *)
(*   ParseInv   scanning + parsing either rendering yields a tree with the *)
(*              same leaves and the same Boolean function as the intended  *)
(*              tree (precedence, grouping, associativity)  [C01 C10]      *)
(*   DnfInv     "some OR-of-ANDs alternative is fully covered" = Eval      *)
(*              (the expansion design is right)             [C01]          *)
(*   LeavesInv  the expansion keeps every leaf              [C06]          *)
(*   MonoInv    the verdict is monotone in A                [C07]          *)
(*   OpDeclInv  the operational decision procedure (expansion + MatchOp)   *)
(*              equals the declarative one (Eval + MatchDecl) [C01 C02]    *)
(* Emitted per tree: the texts, Universe, the verdict for every subset and *)
(* the expected ExtractLicenses terms; replayed on the real code.          *)
(***************************************************************************)
EXTENDS TreeOps

VARIABLES vTree, vRun

\* vRun caches, per state, the model's own run of the pipeline on the two renderings of vTree
\* (TLC re-evaluates a definition at every reference; a variable is computed once per transition).
RunOf(tree) == LET tmin == RenderMin(WithTexts(tree)) tfull == RenderFull(WithTexts(tree)) IN
               [tmin |-> tmin, tfull |-> tfull, amin |-> Parse(tmin), afull |-> Parse(tfull), want |-> WithTerms(tree)]

Init == \E k \in 1..NL : vTree = LLeaf(k) /\ vRun = RunOf(LLeaf(k))
Grow == /\ NLeaves(vTree) < MaxLeaves
        /\ \E idx \in 1..NLeaves(vTree), o \in {"and", "or"}, k \in 1..NL :
              /\ vTree' = Grown(vTree, idx, Bin(o, LeafAt(vTree, idx), LLeaf(k)))
              /\ vRun' = RunOf(vTree')
Next == Grow
Spec == Init /\ [][Next]_<<vTree, vRun>>

Intended == vRun.want
TextMin  == vRun.tmin
TextFull == vRun.tfull
AstMin   == vRun.amin
AstFull  == vRun.afull

ParseInv  == /\ AstMin.ok /\ AstFull.ok /\ AstMin.amb = {} /\ AstFull.amb = {}
             /\ SameFn(AstMin.node, Intended) /\ SameFn(AstFull.node, Intended)
DnfInv    == \A m \in Masks : DnfAgrees(AstMin.node, TruthD[m]) /\ DnfAgrees(AstFull.node, TruthD[m])
LeavesInv == DnfKeepsLeaves(AstMin.node) /\ DnfKeepsLeaves(AstFull.node)
MonoInv   == \A m1, m2 \in Masks : (\A j \in 1..NU : InMask(m1, j) => InMask(m2, j)) =>
                (Eval(Intended, TruthD[m1]) => Eval(Intended, TruthD[m2]))
OpDeclInv == \A m \in Masks : DnfSat(AstMin.node, TruthO[m]) = Eval(Intended, TruthD[m])

RECURSIVE VStr(_)
VStr(m) == IF m > 2^NU - 1 THEN "" ELSE (IF Eval(Intended, TruthD[m]) THEN "1" ELSE "0") \o VStr(m + 1)

SetToSeq(S) == LET RECURSIVE Go(_)
                   Go(X) == IF X = {} THEN <<>> ELSE LET x == CHOOSE y \in X : TRUE IN <<x>> \o Go(X \ {x})
               IN Go(S)

Emit == /\ PrintT(ToJson([k |-> "satb", es |-> <<TextMin, TextFull>>, u |-> Universe, v |-> VStr(1), valid |-> TRUE]))
        /\ PrintT(ToJson([k |-> "ext", e |-> TextMin, err |-> FALSE,
                          terms |-> SetToSeq({SetToSeq(Spellings(t)) : t \in Leaves(Intended)})]))
=============================================================================
