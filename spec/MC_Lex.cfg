SPECIFICATION Spec
CONSTANTS
  Dev = {}
INVARIANTS ScanInv OffsetInv ValidInv NoPanic Emit
CHECK_DEADLOCK FALSE
