SPECIFICATION Spec
CONSTANTS
  Dev = {}
INVARIANTS Report
CHECK_DEADLOCK FALSE
