------------------------- MODULE MC_AllowedSpell_P --------------------------
\* Parameters of MC_AllowedSpell (overwritten by the check)
Exprs    == <<"GPL-2.0-only AND MIT", "GPL-3.0 OR (MIT AND LicenseRef-a)">>
Universe == <<"GPL-2.0", "GPL-1.0+", "MIT WITH Bison-exception-2.2", "LicenseRef-a">>
MaxDup   == 1
MaxResp  == 1
MixK     == 0
=============================================================================
