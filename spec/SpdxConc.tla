------------------------------ MODULE SpdxConc ------------------------------
(***************************************************************************)
(* Concurrent callers (C13).  One goroutine per call of Calls; each call   *)
(* is the stage pipeline of Api.tla cut at the points where the            *)
(* implementation has (verif-tagged) stage hooks:                          *)
(*   Satisfies         parsed -> allowed -> expanded -> return             *)
(*                     (return right after parsing when the expression is  *)
(*                     invalid; after "parsed" when the list is empty or   *)
(*                     has an invalid/compound entry)                      *)
(*   ExtractLicenses   parsed -> expanded -> return                        *)
(*   ValidateLicenses  parsed (once per element) -> return                 *)
(* A Step lets one goroutine run to its next hook.  The calls share the    *)
(* caller-owned argument slices vMem and nothing else: the specification   *)
(* has NO other shared variable - that is the design claim of C13.         *)
(*                                                                         *)
(* Invariants, over every interleaving:                                    *)
(*   MemInv   no step changes the caller's slices                          *)
(*   OutInv   nothing is written to stdout/stderr                          *)
(*   ResInv   every finished call returned what the sequential             *)
(*            specification returns for its arguments                      *)
(* Every complete schedule is emitted and replayed on the real code        *)
(* through the blocking hooks.  Dev "SharedScratch" models a package-level *)
(* scratch buffer (written when a call is parsed, read when it expands):   *)
(* with it TLC finds the interleavings that break ResInv.                  *)
(***************************************************************************)
EXTENDS Render, SpdxConc_P

VARIABLES vPc, vMem, vOut, vRes, vSched, vScratch

G == DOMAIN Calls
ArgOf(g, mem) == IF Calls[g].arg = "" THEN <<>> ELSE mem[Calls[g].arg]

\* the hook sequence the specification predicts for a call
Stages(g) == StagesOf(Calls[g].fn, Calls[g].e, ArgOf(g, Mem))
StageTab == TLCEval([g \in G |-> Stages(g)])
NSteps(g) == Len(StageTab[g]) + 1      \* segments: up to each hook, and from the last hook to the exit

ResultOf(g, mem, scratch) ==
  LET c == Calls[g] a == ArgOf(g, mem) IN
  IF c.fn = "Satisfies" THEN LET r == SatisfiesSpec(IF "SharedScratch" \in Dev /\ Valid(c.e) THEN scratch ELSE c.e, a) IN [sat |-> r.sat, err |-> r.err]
  ELSE IF c.fn = "ExtractLicenses" THEN LET r == ExtractSpec(IF "SharedScratch" \in Dev /\ Valid(c.e) THEN scratch ELSE c.e) IN [err |-> r.err, strs |-> r.strs]
  ELSE LET r == ValidateSpec(a) IN [ok |-> r.ok, invalid |-> r.invalid]
SeqResult == TLCEval([g \in G |-> ResultOf(g, Mem, Calls[g].e)])

Init == /\ vPc = [g \in G |-> 0]
        /\ vMem = Mem /\ vOut = 0
        /\ vRes = [g \in G |-> [done |-> FALSE]]
        /\ vSched = <<>> /\ vScratch = ""

Step(g) ==
  /\ vPc[g] < NSteps(g)
  /\ vPc' = [vPc EXCEPT ![g] = @ + 1]
  /\ vSched' = Append(vSched, g)
  /\ vMem' = vMem                          \* no stage writes the caller's memory
  /\ vOut' = vOut                          \* no stage prints
  /\ LET k == vPc[g] + 1 IN                \* the segment being executed ends at hook k (or at the exit)
     /\ vScratch' = IF "SharedScratch" \in Dev /\ k <= Len(StageTab[g]) /\ StageTab[g][k] = "parsed" /\ Calls[g].fn # "ValidateLicenses"
                    THEN Calls[g].e ELSE vScratch
     /\ vRes' = IF k = NSteps(g) - 1       \* the segment that reaches the "return" hook computes the result
                THEN [vRes EXCEPT ![g] = [done |-> TRUE, r |-> ResultOf(g, vMem, vScratch')]]
                ELSE vRes
Next == \E g \in G : Step(g)
Spec == Init /\ [][Next]_<<vPc, vMem, vOut, vRes, vSched, vScratch>>

MemInv == vMem = Mem
OutInv == vOut = 0
ResInv == \A g \in G : vRes[g].done => vRes[g].r = SeqResult[g]
Done   == \A g \in G : vPc[g] = NSteps(g)
Emit   == Done => PrintT(ToJson([k |-> "sched", order |-> vSched]))

\* the history variable vSched only multiplies states; invariants do not depend on it
View == <<vPc, vMem, vOut, vRes, vScratch>>
=============================================================================
