------------------------------ MODULE MC_Pairs -----------------------------
(***************************************************************************)
(* Single-term matching over ordered pairs of term texts built from the    *)
(* shipped tables (the check chooses the texts: every listed id in several *)
(* spellings, with and without exceptions, LicenseRefs; the blocks say     *)
(* which parts of TextsA x TextsB to explore).                             *)
(*                                                                         *)
(* Checked for every pair (a, b):                                          *)
(*   OpDecl      MatchOp = MatchDecl - the code's decision structure       *)
(*               implements the rule as C02 words it (on pairs whose       *)
(*               answer does not depend on duplicate table positions, R9)  *)
(*   Symmetric   MatchDecl(a, b) = MatchDecl(b, a)                         *)
(*   Reflexive   a term matches itself                                     *)
(*   NoCross     a license never matches a LicenseRef                      *)
(*   PlusNatural [C11] for two ids of one table family: 'a+' matches b iff *)
(*               b's version is the same or later in NATURAL order; ids of *)
(*               different natural families never match through '+'        *)
(* Emitted per pair: the texts and the expected Satisfies(a, [b]).         *)
(***************************************************************************)
EXTENDS Versions, Api, MC_Pairs_P

VARIABLES vA, vB

TermA == TLCEval([n \in DOMAIN TextsA |-> Parse(TextsA[n]).node.term])
TermB == TLCEval([n \in DOMAIN TextsB |-> Parse(TextsB[n]).node.term])
ASSUME \A n \in DOMAIN TextsA : Parse(TextsA[n]).ok /\ Parse(TextsA[n]).node.op = "leaf" /\ InOracle(TextsA[n])
ASSUME \A n \in DOMAIN TextsB : Parse(TextsB[n]).ok /\ Parse(TextsB[n]).node.op = "leaf" /\ InOracle(TextsB[n])
ASSUME LowFormsAgree
FirstTerm == Parse(First).node.term
LastTerm  == Parse(Last).node.term
ASSUME Parse(First).ok /\ Parse(Last).ok /\ Parse(First).node.op = "leaf" /\ Parse(Last).node.op = "leaf"

\* two-level choice (first a, then b) so that TLC's workers share the pairs of different a's
InBlockA(x)    == \E n \in DOMAIN Blocks : x \in (Blocks[n][1])..(Blocks[n][2])
InBlockB(x, y) == \E n \in DOMAIN Blocks : x \in (Blocks[n][1])..(Blocks[n][2]) /\ y \in (Blocks[n][3])..(Blocks[n][4])
Init    == vA = 0 /\ vB = 0
ChooseA == vA = 0 /\ vB = 0 /\ vA' \in {x \in DOMAIN TextsA : InBlockA(x)} /\ vB' = 0
ChooseB == vA > 0 /\ vB = 0 /\ vA' = vA /\ vB' \in {y \in DOMAIN TextsB : InBlockB(vA, y)}
Next == ChooseA \/ ChooseB
Spec == Init /\ [][Next]_<<vA, vB>>
Chosen == vA > 0 /\ vB > 0

a == TermA[vA]
b == TermB[vB]

OpDecl    == (Chosen /\ PositionIndependent(a, b)) => (MatchOp(a, b) = MatchDecl(a, b))
Symmetric == Chosen => MatchDecl(a, b) = MatchDecl(b, a) /\ MatchOp(a, b) = MatchOp(b, a)
Reflexive == (Chosen /\ a = b) => MatchDecl(a, b) /\ MatchOp(a, b)
NoCross   == (Chosen /\ a.kind # b.kind) => ~MatchDecl(a, b) /\ ~MatchOp(a, b)

\* C11: what the table makes of '+' agrees with the natural order of version numbers
BothLic == a.kind = "lic" /\ b.kind = "lic" /\ a.exc = b.exc
NatExpected ==   \* natural-order reading of C02's rule for two ids of one natural family
  LET x == Base(a.id) y == Base(b.id) IN
  \/ x = y
  \/ /\ SameNaturalFamily(x, y)
     /\ \/ ~a.plus /\ ~b.plus /\ VersionOf(x) = VersionOf(y)
        \/ a.plus /\ ~b.plus /\ VerLeq(VersionOf(x), VersionOf(y))
        \/ ~a.plus /\ b.plus /\ VerLeq(VersionOf(y), VersionOf(x))
        \/ a.plus /\ b.plus
Covered(id) == Pos(Base(id)) # {}
PlusNatural ==
  (Chosen /\ BothLic /\ PositionIndependent(a, b)) =>
     /\ (Covered(a.id) /\ Covered(b.id) /\ SameNaturalFamily(Base(a.id), Base(b.id))) => (MatchDecl(a, b) = NatExpected)
     /\ (HasShape(Base(a.id)) /\ HasShape(Base(b.id)) /\ ~SameNaturalFamily(Base(a.id), Base(b.id))) => (MatchDecl(a, b) = (Base(a.id) = Base(b.id)))

\* C11's natural-order expectation, where it applies: a covered family's natural family, or two different families
NatApplies == BothLic /\ (  (SameNaturalFamily(Base(a.id), Base(b.id)) /\ (Covered(a.id) \/ Covered(b.id)))
                          \/ ~SameNaturalFamily(Base(a.id), Base(b.id)) )
NatAnswer  == IF SameNaturalFamily(Base(a.id), Base(b.id)) THEN NatExpected ELSE Base(a.id) = Base(b.id)

Emit == Chosen =>
        /\ PrintT(ToJson([k |-> "pair", e |-> TextsA[vA], b |-> TextsB[vB], m |-> MatchDecl(a, b),
                          posdep |-> ~PositionIndependent(a, b), tag |-> "table"]))
        /\ NatApplies => PrintT(ToJson([k |-> "pair", e |-> TextsA[vA], b |-> TextsB[vB], m |-> NatAnswer,
                                        posdep |-> ~PositionIndependent(a, b), tag |-> "natural"]))
        \* the expression's own term as allowed entry, preceded by a ranged entry UNDER AN EXCEPTION whose range covers it: the
        \* term matches itself whatever else is on the list (an entry "covered" by another entry's range is not redundant
        \* when the two differ in their exception)
        /\ (BothLic /\ a.exc = "" /\ b.plus /\ HasSuffix(TextsB[vB], "+")) =>
              /\ PrintT(ToJson([k |-> "sat", e |-> TextsA[vA], a |-> <<TextsB[vB] \o " WITH " \o PairExc, TextsA[vA]>>, sat |-> TRUE, err |-> FALSE]))
              /\ PrintT(ToJson([k |-> "sat", e |-> TextsA[vA] \o " WITH " \o PairExc, a |-> <<TextsB[vB], TextsA[vA] \o " WITH " \o PairExc>>, sat |-> TRUE, err |-> FALSE]))
        \* the ranged entry next to its own un-ranged twin (and the other way round): 'X+' must keep its reach
        /\ (BothLic /\ b.plus /\ HasSuffix(TextsB[vB], "+")) =>
              LET twin == DropSuffix(TextsB[vB], 1)
                  want == MatchDecl(a, b) \/ MatchDecl(a, [b EXCEPT !.plus = FALSE])
                  \* ... and with further entries that sort before and after the two (First / Last: byte-order extremes of the list)
                  wantL == want \/ MatchDecl(a, LastTerm)
                  wantFL == wantL \/ MatchDecl(a, FirstTerm)
              IN /\ PrintT(ToJson([k |-> "sat", e |-> TextsA[vA], a |-> <<twin, TextsB[vB]>>, sat |-> want, err |-> FALSE]))
                 /\ PrintT(ToJson([k |-> "sat", e |-> TextsA[vA], a |-> <<TextsB[vB], twin>>, sat |-> want, err |-> FALSE]))
                 /\ PrintT(ToJson([k |-> "sat", e |-> TextsA[vA], a |-> <<twin, TextsB[vB], Last>>, sat |-> wantL, err |-> FALSE]))
                 /\ PrintT(ToJson([k |-> "sat", e |-> TextsA[vA], a |-> <<Last, TextsB[vB], twin>>, sat |-> wantL, err |-> FALSE]))
                 /\ PrintT(ToJson([k |-> "sat", e |-> TextsA[vA], a |-> <<First, TextsB[vB], twin, Last>>, sat |-> wantFL, err |-> FALSE]))
=============================================================================
