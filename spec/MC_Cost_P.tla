------------------------------ MODULE MC_Cost_P -----------------------------
\* Parameters of MC_Cost (overwritten by the check)
SmallN == {1, 2, 3, 4, 5, 6}          \* sizes at which the closed-form laws are compared with the parsed tree
Sizes  == <<2, 4, 8>>    \* sizes emitted for measurement on the real code
SizesExp == <<2, 4, 6>>  \* sizes for families whose law is not polynomial (the numbers outgrow TLC integers otherwise)
Degree == 3              \* a law is "low-degree polynomial" if cells <= 4 * terms^Degree
=============================================================================
