----------------------------- MODULE MC_Chars_P -----------------------------
\* Parameters of MC_Chars (overwritten by the check)
MaxSyms == 3
Symbols == <<"(", ")", "+", ":", " ", "MIT", "-", "x", "#", "-or-later", "-only", "LicenseRef-", "AND", "WITH">>
=============================================================================
