SPECIFICATION Spec
CONSTANTS
  Dev = {}
INVARIANTS NoPanic GrammarInv Emit
CHECK_DEADLOCK FALSE
