SPECIFICATION Spec
CONSTANTS
  Dev = {}
INVARIANTS ActiveBoth Interchangeable Emit
CHECK_DEADLOCK FALSE
