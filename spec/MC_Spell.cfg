SPECIFICATION Spec
CONSTANTS
  Dev = {}
INVARIANTS Emit ActiveBoth Interchangeable
CHECK_DEADLOCK FALSE
