------------------------------ MODULE MC_Lists -----------------------------
(***************************************************************************)
(* Lists as arguments (C04).  Every list of at most MaxList elements over  *)
(* a pool of strings (valid single terms in two spellings, a valid         *)
(* compound expression, a parenthesised single term, several kinds of      *)
(* invalid strings, the empty string), repeats included, is used           *)
(*   - as the argument of ValidateLicenses: the result must be exactly the *)
(*     invalid elements, in order and with multiplicity;                   *)
(*   - as the allowed list of Satisfies for a valid, an invalid and an     *)
(*     empty expression: error iff the expression is invalid, the list is  *)
(*     empty, or some entry is invalid or compound.                        *)
(* ErrorRule (invariant) states the second rule on the model's own         *)
(* pipeline position by position.                                          *)
(***************************************************************************)
EXTENDS Render, MC_Lists_P

VARIABLE vList
Init == vList = <<>>
Next == Len(vList) < MaxList /\ \E n \in DOMAIN Pool : vList' = Append(vList, Pool[n])
Spec == Init /\ [][Next]_vList

ErrorRule == \A x \in DOMAIN Exprs :
               SatisfiesSpec(Exprs[x], vList).err =
                 (~Valid(Exprs[x]) \/ Len(vList) = 0 \/ \E n \in DOMAIN vList : ~Valid(vList[n]) \/ Compound(vList[n]))
ValidateRule == LET r == ValidateSpec(vList) IN
                /\ r.ok = (\A n \in DOMAIN vList : Valid(vList[n]))
                /\ Len(r.invalid) = Cardinality({n \in DOMAIN vList : ~Valid(vList[n])})

Emit == /\ LET r == ValidateSpec(vList) IN PrintT(ToJson([k |-> "val", l |-> vList, ok |-> r.ok, bad |-> r.invalid]))
        /\ \A x \in DOMAIN Exprs :
             LET r == SatisfiesSpec(Exprs[x], vList) IN
             PrintT(ToJson([k |-> "sat", e |-> Exprs[x], a |-> vList, sat |-> r.sat, err |-> r.err]))
ASSUME \A n \in DOMAIN Pool : InOracle(Pool[n])
ASSUME \A n \in DOMAIN Exprs : InOracle(Exprs[n])
ASSUME LowFormsAgree
=============================================================================
