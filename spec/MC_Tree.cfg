SPECIFICATION Spec
CONSTANTS
  Dev = {}
INVARIANTS ParseInv DnfInv LeavesInv MonoInv OpDeclInv Emit
CHECK_DEADLOCK FALSE
