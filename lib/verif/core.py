"""Orchestration shared by all property checks: build, export, TLC, replay, trace validation,
known findings, evidence.  Verdicts come only from real-code behaviour (see DESIGN.md 4.6)."""
import atexit, glob, hashlib, json, os, re, shutil, subprocess, sys, tempfile, time

VERIF = os.path.dirname(os.path.dirname(os.path.dirname(os.path.abspath(__file__))))
REPO = os.environ.get("VERIF_REPO", "/repo")
TLA_CP = "/opt/veriftools/tla/tla2tools.jar:/opt/veriftools/tla/CommunityModules-deps.jar"
GOENV = dict(os.environ, GOFLAGS="-mod=mod", GOPROXY="off", GOSUMDB="off", GOTOOLCHAIN="local")
os.environ.setdefault("GOGC", "400")  # the library allocates heavily per call; fewer GC cycles for the harness processes
NCPU = os.cpu_count() or 4


class Infra(Exception):
    """infrastructure problem: exit 2, never a verdict"""


class Crashed(Exception):
    """the code under test killed a harness process and the killing call was reproduced alone: the check ends with that violation"""


def log(*a):
    print(*a, file=sys.stderr, flush=True)


# ------------------------------------------------------------------ crash attribution
FATAL_MARKS = ("fatal error:", "runtime: goroutine stack exceeds", "runtime: out of memory")
JOURNAL_SLOTS, JOURNAL_SLOT_SIZE = 4096, 64 << 10      # harness/journal.go


def looks_fatal(rc, stderr):
    # (exit status 2 is what the Go runtime uses for fatal errors; the text may be lost when the process dies while its own
    # output is being captured - the verdict is the reproduction of a single call alone, never this test)
    return rc is not None and rc != 0 and (rc < 0 or rc == 2 or any(k in (stderr or "") for k in FATAL_MARKS))


HANG_MARK = "has not returned after"       # harness/journal.go (exit 5): one call pending for two minutes in a bulk stage


def looks_hung(rc, stderr):
    return rc == 5 and HANG_MARK in (stderr or "")


def journal_env(ctx, env=None, hang_monitor=True):
    """environment for one harness process: every call of an exported function is journalled (arguments, per goroutine)"""
    ctx._jn = getattr(ctx, "_jn", 0) + 1
    jp = os.path.join(ctx.scratch, "journal-%d.bin" % ctx._jn)
    e = dict(os.environ if env is None else env)
    if not os.environ.get("VERIF_NOJOURNAL"):
        e["VERIF_JOURNAL"] = jp
        if hang_monitor:
            e["VERIF_HANG_MONITOR"] = "1"
    return e, jp


def journal_candidates(jp):
    out = []
    if not os.path.exists(jp):
        return out
    size = os.path.getsize(jp)
    with open(jp, "rb") as f:
        for slot in range(JOURNAL_SLOTS):
            off = slot * JOURNAL_SLOT_SIZE
            if off >= size:
                break
            f.seek(off)
            if f.read(1) != b"{":
                continue
            line = b"{" + f.readline(JOURNAL_SLOT_SIZE)
            try:
                r = json.loads(line)
            except ValueError:
                continue
            if not r.get("args"):
                continue
            if r not in out:
                out.append(r)
    return out


def after_harness(ctx, name, rc, stderr, jp):
    """Call after every harness process.  If the process was killed by a fatal runtime error (stack overflow, out of memory:
    nothing recover() can catch, so no observation exists), every call that had not returned is run ALONE in a fresh process, twice;
    a call that kills that process both times is a reproduced violation ("crash") and ends the check.  Anything else is left to the
    caller (an infrastructure problem, exit 2)."""
    try:
        if looks_hung(rc, stderr):
            # one call did not return within two minutes: each pending call is run alone with 60 s (the first hit once more with
            # 120 s); a call that does not return is reported ("hang"); the journalled arguments are < 64 KB
            hung = []
            for n, r in enumerate(journal_candidates(jp)[:64]):
                mf = os.path.join(ctx.scratch, "hang-cand-%d.json" % n)
                args = [bytes.fromhex(h) for h in r["args"]]
                m = {"what": "hang", "fn": r["fn"], "rawhex": r["args"], "expr": args[0].decode("utf-8", "replace"),
                     "list": [a.decode("utf-8", "replace") for a in args[1:]],
                     "expected": "the call returns (a result or an error)", "source": name}
                with open(mf, "w") as fh:
                    json.dump(m, fh)
                stuck = 0
                for limit in ((60, 120) if not hung else (60,)):      # the first hit is confirmed by a second, longer run
                    try:
                        subprocess.run([ctx.harness, "run1", "-event", mf, os.path.join(ctx.scratch, "hang-trace.ndjson")],
                                       capture_output=True, text=True, timeout=limit)
                    except subprocess.TimeoutExpired:
                        stuck += 1
                        continue
                    break
                if stuck == (2 if not hung else 1):
                    m["observed"] = "alone in a fresh process the call does not return within %s" % ("60 s, and again not within 120 s" if not hung else "60 s")
                    hung.append(m)
                    if len(hung) >= 2:
                        break
            if hung:
                ctx.mismatches += hung
                ctx.stages.append({"stage": name, "kind": "ABORTED: a call of the code under test did not return", "calls_reproduced_alone": len(hung)})
                raise Crashed(name)
            return
        if not looks_fatal(rc, stderr):
            return
        found = []

        def alone(mf, stack_mb, timeout):
            env = dict(os.environ)
            if stack_mb:
                env["VERIF_MAXSTACK_MB"] = str(stack_mb)
            try:
                p = subprocess.run([ctx.harness, "run1", "-event", mf, os.path.join(ctx.scratch, "crash-trace.ndjson")],
                                   capture_output=True, text=True, timeout=timeout, env=env)
            except subprocess.TimeoutExpired:
                return None
            if not looks_fatal(p.returncode, p.stderr):
                return None
            return next((l for l in p.stderr.splitlines() if any(k in l for k in FATAL_MARKS)), "process died rc=%d" % p.returncode)

        for n, r in enumerate(journal_candidates(jp)[:256]):
            mf = os.path.join(ctx.scratch, "crash-cand-%d.json" % n)
            args = [bytes.fromhex(h) for h in r["args"]]
            m = {"what": "crash", "fn": r["fn"], "rawhex": r["args"], "expr": args[0].decode("utf-8", "replace"),
                 "list": [a.decode("utf-8", "replace") for a in args[1:]],
                 "expected": "the call returns (a result or an error)", "source": name}
            with open(mf, "w") as fh:
                json.dump(m, fh)
            # first pass: alone, in a fresh process, with the goroutine stack limited to 256 MB (quick); every call journalled has
            # arguments of < 64 KB, so none of them can legitimately need that much
            d = alone(mf, 256, 300)
            if d is None:
                continue
            if not found:
                # the first one is confirmed under the runtime's default limits (1 GB stack: slow), the rest are reported as observed
                d2 = alone(mf, 0, 1800)
                if d2 is None:
                    continue
                d = d2
            m["observed"] = "the process dies: " + d
            found.append(m)
            if len(found) >= 5:
                break
        if found:
            ctx.mismatches += found
            ctx.stages.append({"stage": name, "kind": "ABORTED: the harness process was killed by the code under test", "calls_reproduced_alone": len(found)})
            raise Crashed(name)
    finally:
        try:
            os.remove(jp)
        except OSError:
            pass


class Ctx:
    def __init__(self, prop, tier, seed, repo=None):
        self.prop, self.tier, self.seed = prop, tier, seed
        self.repo = repo or REPO
        self.t0 = time.time()
        base = os.environ.get("VERIF_SCRATCH") or tempfile.gettempdir()
        self.scratch = tempfile.mkdtemp(prefix="verif-%s-" % prop, dir=base)
        atexit.register(shutil.rmtree, self.scratch, True)
        self.spec = os.path.join(self.scratch, "spec")
        self.harness = os.path.join(self.scratch, "harness")
        self.states = 0
        self.transitions = 0
        self.replayed = 0          # real-code executions compared with a model prediction
        self.events = 0            # real-code events validated against the spec
        self.nontrivial = 0
        self.samples = []
        self.mismatches = []       # dicts
        self.notes = []
        self.stages = []           # per stage summary for the evidence
        self.exhaustive = True
        self.assumptions = []

    # ------------------------------------------------------------------ build
    def build(self, race=False):
        src = os.path.join(self.scratch, "hsrc")
        os.makedirs(src, exist_ok=True)
        for f in glob.glob(os.path.join(VERIF, "harness", "*.go")):
            shutil.copy(f, src)
        with open(os.path.join(VERIF, "harness", "go.mod.tmpl")) as f:
            gomod = f.read().replace("@REPO@", self.repo)
        with open(os.path.join(src, "go.mod"), "w") as f:
            f.write(gomod)
        shutil.copy(os.path.join(self.repo, "go.sum"), src)
        out = self.harness + ("-race" if race else "")
        cmd = ["go", "build", "-tags", "verif"] + (["-race"] if race else []) + ["-o", out, "."]
        p = subprocess.run(cmd, cwd=src, env=GOENV, capture_output=True, text=True)
        if p.returncode != 0:
            # a tree that does not compile with the hooks is not something a property check can judge
            raise Infra("harness build failed:\n" + p.stdout + p.stderr)
        return out

    def export(self):
        os.makedirs(self.spec, exist_ok=True)
        for f in glob.glob(os.path.join(VERIF, "spec", "*.tla")) + glob.glob(os.path.join(VERIF, "spec", "*.cfg")):
            shutil.copy(f, self.spec)
        self.tables_path = os.path.join(self.scratch, "tables.json")
        p = subprocess.run([self.harness, "export", self.tables_path, os.path.join(self.spec, "TablesData.tla")],
                           capture_output=True, text=True)
        if p.returncode != 0:
            raise Infra("export failed: " + p.stderr)
        with open(self.tables_path) as f:
            self.tables = json.load(f)

    def write_params(self, module, defs):
        """overwrite a parameter module (<MC>_P.tla) with definitions given as TLA+ source strings"""
        lines = ["---- MODULE %s ----" % module, "\\* written by the check for this run (seed %d, tier %s)" % (self.seed, self.tier)]
        for k, v in defs.items():
            lines.append("%s == %s" % (k, v))
        lines.append("====")
        with open(os.path.join(self.spec, module + ".tla"), "w") as f:
            f.write("\n".join(lines) + "\n")

    # -------------------------------------------------------------------- TLC
    def write_cfg(self, name, spec="Spec", constants=None, invariants=(), properties=(), extra=""):
        lines = ["SPECIFICATION %s" % spec] if spec else []
        consts = {"Dev": "{}"}
        consts.update(constants or {})
        lines.append("CONSTANTS")
        for k, v in consts.items():
            lines.append("  %s = %s" % (k, v))
        if invariants:
            lines.append("INVARIANTS " + " ".join(invariants))
        if properties:
            lines.append("PROPERTIES " + " ".join(properties))
        lines.append("CHECK_DEADLOCK FALSE")
        if extra:
            lines.append(extra)
        path = os.path.join(self.spec, name + ".cfg")
        with open(path, "w") as f:
            f.write("\n".join(lines) + "\n")
        return path

    def tlc_cmd(self, module, cfg, workers, extra=()):
        md = tempfile.mkdtemp(prefix="md-", dir=self.scratch)
        return ["java", "-XX:+UseParallelGC", "-Xmx8g", "-Xmn384m", "-Xss64m", "-cp", TLA_CP, "tlc2.TLC",
                "-workers", str(workers), "-metadir", md, "-config", cfg + ".cfg"] + list(extra) + [module + ".tla"]

    def run_tlc(self, name, module, cfg, replay=True, workers=None, timeout=1800, reps=1, extra=(), env=None, replay_args=()):
        """Run TLC; pipe its stdout into `harness replay` (records are lines starting with "{ ).
        Returns dict(states, distinct, log, summary)."""
        workers = workers or NCPU
        logp = os.path.join(self.scratch, name + ".tlc.log")
        sump = os.path.join(self.scratch, name + ".replay.json")
        t0 = time.time()
        e = dict(os.environ)
        e.update(env or {})
        e["VERIF_SEED"] = str(self.seed)
        je, jp = journal_env(self, e)
        tl = subprocess.Popen(self.tlc_cmd(module, cfg, workers, extra), cwd=self.spec, stdout=subprocess.PIPE,
                              stderr=subprocess.STDOUT, env=e)
        rp = subprocess.Popen([self.harness, "replay", "-prop", self.prop, "-log", logp, "-out", sump,
                               "-seed", str(self.seed), "-workers", str(NCPU), "-reps", str(reps)]
                              + (["-allvariants"] if self.tier == "thorough" else []) + list(replay_args),
                              stdin=tl.stdout, stdout=subprocess.PIPE, stderr=subprocess.PIPE, env=je)
        tl.stdout.close()
        try:
            rout, rerr = rp.communicate(timeout=timeout)
            tl.wait(timeout=60)
        except subprocess.TimeoutExpired:
            tl.kill(); rp.kill()
            raise Infra("%s: TLC/replay timed out after %ds" % (name, timeout))
        if rp.returncode != 0:
            try:
                tl.kill()
            except OSError:
                pass
        after_harness(self, "S->I:" + name, rp.returncode, rerr.decode(errors="replace"), jp)
        with open(logp) as f:
            tlog = f.read()
        if rp.returncode != 0:
            raise Infra("%s: replayer failed (%d): %s\n%s" % (name, rp.returncode, rerr.decode()[-2000:], tlog[-2000:]))
        res = self.parse_tlc(name, tlog, tl.returncode)
        with open(sump) as f:
            summ = json.load(f)
        res["summary"] = summ
        res["wall_s"] = round(time.time() - t0, 1)
        self.states += res["distinct"]
        self.transitions += res["generated"]
        self.replayed += summ["calls"]
        self.nontrivial += summ["nontrivial"]
        for s in summ.get("samples") or []:
            if len(self.samples) < 8:
                self.samples.append(s)
        for m in summ.get("mismatches") or []:
            m["source"] = "S->I:" + name
            self.mismatches.append(m)
        if summ.get("mismatchCount", 0) > len(summ.get("mismatches") or []):
            self.notes.append("%s: %d mismatches in total, first %d kept" % (name, summ["mismatchCount"], len(summ["mismatches"])))
        self.stages.append({"stage": name, "kind": "TLC exhaustive + replay on real code", "tlc_distinct_states": res["distinct"],
                            "tlc_states_generated": res["generated"], "records": summ["records"], "real_calls": summ["calls"],
                            "mismatches": summ.get("mismatchCount", 0), "wall_s": res["wall_s"],
                            "by_kind": summ.get("byKind"), "invariant_violated": res.get("violated")})
        log("[%s] %s: %d distinct states, %d records, %d real calls, %d mismatches, %.0fs" % (
            self.prop, name, res["distinct"], summ["records"], summ["calls"], summ.get("mismatchCount", 0), res["wall_s"]))
        return res

    def parse_tlc(self, name, tlog, rc):
        m = re.findall(r"(\d[\d,]*) states generated, (\d[\d,]*) distinct states found", tlog)
        res = {"generated": 0, "distinct": 0, "log": tlog, "violated": None, "ok": False}
        if m:
            res["generated"] = int(m[-1][0].replace(",", ""))
            res["distinct"] = int(m[-1][1].replace(",", ""))
        v = re.search(r"Invariant (\w+) is violated", tlog)
        if v:
            res["violated"] = v.group(1)
        if "Model checking completed. No error has been found." in tlog:
            res["ok"] = True
        elif res["violated"] is None:
            raise Infra("%s: TLC did not complete (rc=%s):\n%s" % (name, rc, tlog[-3000:]))
        return res

    # ------------------------------------------------------- trace validation
    def drive(self, name, flavor, n, leaves=8, extra=()):
        path = os.path.join(self.spec, "trace.ndjson")
        je, jp = journal_env(self)
        p = subprocess.run([self.harness, "drive", "-seed", str(self.seed), "-n", str(n), "-flavor", flavor,
                            "-leaves", str(leaves), "-out", path] + list(extra), capture_output=True, text=True, env=je)
        after_harness(self, "I->S:" + name, p.returncode, p.stderr, jp)
        if p.returncode != 0:
            raise Infra("drive failed: " + p.stderr[-2000:])
        return path

    def validate_trace(self, name, path=None, timeout=1800):
        """I->S: TLC (SpdxTrace.tla) must accept every recorded event; returns list of (event, reason)."""
        path = path or os.path.join(self.spec, "trace.ndjson")
        with open(path) as f:
            events = [json.loads(l) for l in f if l.strip()]
        t0 = time.time()
        p = subprocess.run(self.tlc_cmd("SpdxTrace", "SpdxTrace", 1), cwd=self.spec, capture_output=True, text=True, timeout=timeout)
        out = p.stdout
        m = re.search(r'<<\s*"TRACEDONE",\s*(\d+),\s*(\{.*?\})\s*>>\n', out, re.S)
        if not m or "Model checking completed. No error has been found." not in out:
            raise Infra("%s: trace validation did not complete:\n%s" % (name, out[-3000:]))
        if int(m.group(1)) != len(events):
            raise Infra("%s: trace has %d events, TLC consumed %s" % (name, len(events), m.group(1)))
        st = re.findall(r"(\d[\d,]*) states generated, (\d[\d,]*) distinct states found", out)
        self.states += int(st[-1][1].replace(",", ""))
        self.transitions += int(st[-1][0].replace(",", ""))
        pairs = re.findall(r'<<(\d+), "([a-z-]+)">>', m.group(2))
        self.events += len(events)
        found = []
        for idx, reason in pairs:
            ev = events[int(idx) - 1]
            found.append({"property": self.prop, "what": reason, "fn": ev["fn"], "expr": ev.get("e", ""),
                          "list": ev.get("a"), "expected": "the observation Api.tla computes for these arguments",
                          "observed": {k: ev.get(k) for k in ("sat", "err", "off", "lex", "ok", "bad", "out", "outnil", "panic", "mut")},
                          "rawhex": ev.get("rawhex") or [], "source": "I->S:" + name})
        self.mismatches.extend(found)
        for ev in events[:2]:
            if len(self.samples) < 10:
                self.samples.append({"event": ev})
        self.stages.append({"stage": name, "kind": "trace validation of real-code events (SpdxTrace.tla)", "events": len(events),
                            "rejected_events": len(set(i for i, _ in pairs)), "wall_s": round(time.time() - t0, 1)})
        log("[%s] %s: %d events validated, %d rejected, %.0fs" % (self.prop, name, len(events), len(set(i for i, _ in pairs)), time.time() - t0))
        return found


def large_inputs(ctx, n=None):
    """driver-chosen inputs beyond the exhaustively explored sizes (long chains, deep nests, wide groups, long allowed lists
    with repeats, long names and blank runs), trace-validated"""
    n = n or (600 if ctx.tier == "thorough" else 120)
    ctx.drive("large", "large", n)
    return ctx.validate_trace("large")


def repetitions(ctx, reps=None):
    """identical calls repeated many times (shapes an implementation would parallelise, batch or pool): every repetition must
    answer like the first, the first is trace-validated, and no slice returned earlier may change"""
    reps = reps or (1500 if ctx.tier == "thorough" else 300)
    ctx.drive("repeat", "repeat", reps)
    return ctx.validate_trace("repeat")


def sessions(ctx, n=None):
    """histories of related calls (same ids in every spelling, through all three functions), every event trace-validated: a result
    that depends on earlier calls is rejected where it shows.  Two processes: the ids listed at several table positions are walked
    forward in one and backward in the other."""
    n = n or (200 if ctx.tier == "thorough" else 30)
    found = []
    for k, seed in enumerate((2 * ctx.seed, 2 * ctx.seed + 1)):
        path = os.path.join(ctx.spec, "trace.ndjson")
        je, jp = journal_env(ctx)
        p = subprocess.run([ctx.harness, "drive", "-seed", str(seed), "-n", str(n), "-flavor", "session", "-out", path], capture_output=True, text=True, env=je)
        after_harness(ctx, "I->S:sessions-%s" % ("fwd" if k else "bwd"), p.returncode, p.stderr, jp)
        if p.returncode != 0:
            raise Infra("drive (sessions) failed: " + p.stderr[-2000:])
        found += ctx.validate_trace("sessions-%s" % ("fwd" if k else "bwd"))
    return found


# ------------------------------------------------------------------ known findings
def load_known():
    p = os.path.join(VERIF, "known_findings.json")
    if not os.path.exists(p):
        return []
    with open(p) as f:
        return json.load(f)


def finding_matches(entry, m):
    """closed set of matcher kinds; never a property-wide wildcard"""
    if entry.get("status") != "known" or entry.get("property") != m.get("property"):
        return False
    mt = entry.get("match", {})
    kind = mt.get("kind")
    texts = [m.get("expr") or ""] + list(m.get("list") or [])
    blob = " ".join(texts)
    if kind == "ids-in-plus-comparison":
        # every license id mentioned by the call is one of the listed ids, and a '+'/-or-later form is involved
        ids = set(re.findall(r"[A-Za-z0-9.\-]+", re.sub(r"\b(AND|OR|WITH)\b", " ", blob)))
        ids = {re.sub(r"(-or-later|-only)$", "", i, flags=re.I).lower() for i in ids}
        allowed = {i.lower() for i in mt.get("ids", [])}
        must = {i.lower() for i in mt.get("must_include", [])}
        return bool(ids) and ids <= allowed and must <= ids and ("+" in blob or "-or-later" in blob.lower())
    if kind == "table-invariant":
        return m.get("what") in mt.get("invariants", []) and set(m.get("list") or []) <= set(mt.get("ids", []))
    if kind == "cost-family":
        return m.get("family") == mt.get("family")
    if kind == "exact-input":
        return m.get("expr") == mt.get("expr") and (m.get("list") or []) == (mt.get("list") or [])
    return False


# ------------------------------------------------------------------ verdict + evidence
def finish(ctx, relevant, level="model_checking", extra_cov=None, rule=None):
    known = load_known()
    viol, foreign, knownhits = [], [], {}
    for m in ctx.mismatches:
        m.setdefault("property", ctx.prop)
        m["property"] = ctx.prop
        if m["what"] not in relevant and m["what"] not in ("panic", "crash", "hang", "unstable-result", "result-overwritten"):
            foreign.append(m)
            continue
        hit = next((e for e in known if finding_matches(e, m)), None)
        if hit:
            knownhits.setdefault(hit["id"], []).append(m)
        else:
            viol.append(m)
    if os.environ.get("VERIF_DEBUG"):
        import collections
        log("mismatch summary:", dict(collections.Counter((m["what"], m.get("source")) for m in ctx.mismatches)))
        log("violations:", len(viol), "foreign:", len(foreign), "known:", {k: len(v) for k, v in knownhits.items()})
    rdir = os.path.join(os.environ.get("VERIF_REPLAY_DIR") or os.path.join(VERIF, "replays"), ctx.prop)
    lines = []
    seen = set()
    for m in viol:
        key = json.dumps({k: m.get(k) for k in ("what", "fn", "expr", "list", "family", "ids")}, sort_keys=True)
        h = hashlib.sha1(key.encode()).hexdigest()[:12]
        if h in seen:
            continue
        seen.add(h)
        if len(seen) > 25:
            continue
        os.makedirs(rdir, exist_ok=True)
        path = os.path.join(rdir, h + ".json")
        with open(path, "w") as f:
            json.dump(m, f, indent=1, sort_keys=True)
        lines.append("VIOLATION property=%s replay=%s" % (ctx.prop, path))
    for e in known:
        if e.get("status") == "known" and e.get("property") == ctx.prop:
            n = len(knownhits.get(e["id"], []))
            print("KNOWN-FINDING: property=%s %s (%s; met %d times in this run)" % (ctx.prop, e.get("witness", e["id"]), e["id"], n))
    for l in lines:
        print(l)
    cov = {
        "states": max(ctx.states, 0), "transitions": max(ctx.transitions, 0),
        "traces_validated_against_impl": ctx.replayed + ctx.events,
        "real_code_calls_compared_with_model_prediction": ctx.replayed,
        "real_code_events_trace_validated": ctx.events,
        "evaluations": ctx.replayed + ctx.events, "distinct_nontrivial": ctx.nontrivial,
        "rule": rule or "cases are the behaviours TLC enumerates (one per distinct terminal state) plus driver-chosen calls; "
                        "non-trivial = the model predicts a positive / structured outcome (see stages)",
        "samples": ctx.samples[:10] or [{"note": "no sample recorded"}],
        # the TLC stages enumerate their (bounded) spaces completely; the driver stages (traces, sessions, large inputs,
        # stress, measurements) sample beyond those bounds - so the run as a whole is not an exhaustive enumeration
        "exhaustive": False,
        "exhaustive_within_bounds_stages": [st["stage"] for st in ctx.stages if "tlc_distinct_states" in st],
        "sampled_stages": [st["stage"] for st in ctx.stages if "tlc_distinct_states" not in st],
        "stages": ctx.stages, "notes": ctx.notes,
        "foreign_mismatches_ignored": len(foreign), "known_finding_hits": {k: len(v) for k, v in knownhits.items()},
    }
    cov.update(extra_cov or {})
    ev = {"property_id": ctx.prop, "tier": ctx.tier, "seed": ctx.seed, "level": level, "coverage": cov,
          "assumptions": ctx.assumptions, "wall_s": round(time.time() - ctx.t0, 1), "violations": len(seen)}
    evdir = os.environ.get("VERIF_EVIDENCE_DIR") or os.path.join(VERIF, "evidence")   # (overridden only when trying seeded defects)
    os.makedirs(evdir, exist_ok=True)
    with open(os.path.join(evdir, ctx.prop + ".json"), "w") as f:
        json.dump(ev, f, indent=1)
    return 1 if lines else 0


def main(argv):
    from . import props
    if not argv:
        print(__doc__)
        return 2
    if argv[0] == "setup":
        return props.setup()
    prop = argv[0]
    if len(argv) >= 3 and argv[1] == "--replay":
        return props.replay(prop, argv[2])
    tier = argv[1] if len(argv) > 1 else os.environ.get("VERIF_TIER", "quick")
    seed = int(os.environ.get("VERIF_SEED", "1") or 1)
    if prop not in props.CHECKS:
        print("unknown property", prop)
        return 2
    ctx = Ctx(prop, tier, seed)
    try:
        ctx.build()
        ctx.export()
        return props.CHECKS[prop](ctx)
    except Crashed as e:
        log("[%s] the code under test killed the harness process in stage %s; the call was reproduced alone" % (prop, e))
        return finish(ctx, relevant=set(), rule="aborted: a call of an exported function killed the process (fatal runtime error); the call was "
                                                "re-run alone in a fresh process twice and killed it both times")
    except Infra as e:
        log("INFRASTRUCTURE PROBLEM (exit 2, not a verdict):", e)
        return 2
    except subprocess.TimeoutExpired as e:
        log("INFRASTRUCTURE PROBLEM (timeout):", e)
        return 2
    except Exception as e:      # anything unexpected in the machinery itself (a missing scratch file, a full disk ...) is never a verdict
        import traceback
        traceback.print_exc()
        log("INFRASTRUCTURE PROBLEM (internal error, exit 2, not a verdict):", repr(e))
        return 2
