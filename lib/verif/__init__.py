from .core import main  # noqa: F401
