"""Writes MANIFEST.json from the registry in props.py (python3 -m verif.manifest)."""
import json, os, sys
sys.path.insert(0, os.path.dirname(os.path.dirname(os.path.abspath(__file__))))
from verif import props
from verif.core import VERIF

def main():
    ids = [json.loads(l)["id"] for l in open(os.path.join(VERIF, "properties.jsonl"))]
    checks, na = [], []
    for pid in ids:
        info = props.INFO.get(pid)
        if not info or pid not in props.CHECKS:
            na.append({"property_id": pid, "reason": (info or {}).get("na", "check not built yet in this round; planned in DESIGN.md section 5")})
            continue
        checks.append({
            "property_id": pid,
            "quick_cmd": "./check %s quick" % pid,
            "thorough_cmd": "./check %s thorough" % pid,
            "evidence_file": "evidence/%s.json" % pid,
            "replay_cmd_template": "./check %s --replay {path}" % pid,
            "engine": "tla-model-conformance",
            "level_claimed": {"category": info["level"], "text": info["text"], "design_ref": info["ref"]},
            "level_note": info["note"],
            "technique": info["technique"],
        })
    man = {
        "version": 1,
        "setup_cmd": "./check setup",
        "hooks": {
            "guard": "verif (Go build tag)",
            "enable": "go build -tags verif (the harness in /verif/harness is built with it against /repo's working tree)",
            "baseline_off_cmd": "./baseline_off.sh",
            "source_commits": ["0b4f052"],
            "add_only": True,
        },
        "engines": [{
            "name": "tla-model-conformance", "path": "spec/ + harness/ + lib/verif",
            "serves_properties": [c["property_id"] for c in checks],
            "kind_free_text": "explicit TLA+ specification (spec/*.tla) checked by TLC; bound to the code by replaying every TLC-generated "
                              "behaviour on the real functions (S->I) and by validating traces recorded from the real functions against "
                              "SpdxTrace.tla (I->S)",
        }],
        "checks": checks,
        "not_applicable": na,
        "notes": "Exit codes: 0 held, 1 violation reproduced on real code, 2 infrastructure problem. VERIF_SEED selects lexemes, roles, "
                 "foreign bytes and driver inputs. VERIF_REPO overrides /repo. Known findings: known_findings.json.",
    }
    with open(os.path.join(VERIF, "MANIFEST.json"), "w") as f:
        json.dump(man, f, indent=1)
    print("MANIFEST.json:", len(checks), "checks,", len(na), "not applicable")

if __name__ == "__main__":
    main()
