"""Per-property checks.  Each takes a Ctx (harness built from the working tree, tables exported,
spec copied into the scratch directory) and returns the exit code."""
import glob, json, os, random, shutil, subprocess, sys, tempfile
from .core import Ctx, Infra, finish, log, VERIF, REPO, TLA_CP, GOENV, NCPU

Q = lambda s: '"%s"' % s  # TLA+ string constant


def pick_plain(ctx, rng=None):
    """an active id that the scanner reads as itself whatever follows (no suffix, no listed -or-later twin)"""
    t = ctx.tables
    low = {x.lower() for x in t["active"] + t["exceptions"]}
    plain = [x for x in t["active"] if not x.endswith("-only") and not x.endswith("-or-later") and x.lower() + "-or-later" not in low]
    if rng is None:
        return "MIT" if "MIT" in plain else plain[0]
    return rng.choice(plain)


def tla_seq(strs):
    return "<<" + ", ".join(Q(x) for x in strs) + ">>"


class Roles:
    """Concrete texts for abstract roles, chosen from the shipped tables by predicate (never by name)."""

    def __init__(self, ctx, rng):
        t = ctx.tables
        self.t, self.rng = t, rng
        active = set(t["active"])
        low = {x.lower() for x in t["active"] + t["exceptions"]}
        self.plain = [x for x in t["active"] if not x.endswith("-only") and not x.endswith("-or-later") and x.lower() + "-or-later" not in low]
        pos = {}
        for fi, fam in enumerate(t["ranges"]):
            for si, step in enumerate(fam):
                for x in step:
                    pos.setdefault(x, []).append((fi, si))
        self.pos = pos
        # families usable as roles: >= 2 steps, every member listed, at one position, not an inert -or-later alias
        self.fams = []
        for fi, fam in enumerate(t["ranges"]):
            steps = [[x for x in st if len(pos[x]) == 1 and not x.endswith("-or-later") and (x in active or x in t["deprecated"])] for st in fam]
            steps = [st for st in steps if st]
            if len(steps) >= 2 and all(len(pos[x]) == 1 for st in fam for x in st):
                self.fams.append(steps)
        self.unranged = [x for x in self.plain if x not in pos]

    def suffixable(self, x):
        return x in self.t["active"] and not x.endswith("-only") and not x.endswith("-or-later")

    def family(self, min_steps=2):
        c = [f for f in self.fams if len(f) >= min_steps]
        return self.rng.choice(c)

    def tree_roles(self, selection=None):
        """returns (leaf texts by kind, universe)"""
        r = self.rng
        fam = self.family(3) if r.random() < 0.7 else self.family(2)
        i1 = r.randrange(0, len(fam) - 1)
        i2 = r.randrange(i1 + 1, len(fam))
        v1, v2 = r.choice(fam[i1]), r.choice(fam[i2])
        lowest = r.choice(fam[r.randrange(0, i1 + 1)])
        exc = r.choice(self.t["exceptions"])
        p1, p2, p3 = r.sample(self.unranged, 3)
        name = r.choice(["a", "x-1", "1.0", "MIT", "Foo.bar"])
        doc = r.choice(["d", "spdx-tool-1.2", "X"])
        sfx = [x for st in fam for x in st if self.suffixable(x)]
        kinds = {
            "plain": p1,
            "fam": v1,
            "famplus": v2 + "+",
            "orlater": (r.choice(sfx) + "-or-later") if sfx else v1 + "+",
            "only": (r.choice(sfx) + "-only") if sfx else v2,
            "withexc": p2 + " WITH " + exc,
            "ref": "LicenseRef-" + name,
            "docref": "DocumentRef-" + doc + ":LicenseRef-" + name,
        }
        # '+' on a deprecated id with a listed -or-later twin is folded by the scanner: still a fine text
        universe = [v1, lowest + "+", p1 if r.random() < 0.5 else p3, "LicenseRef-" + name,
                    r.choice([p2 + " WITH " + exc, "DocumentRef-" + doc + ":LicenseRef-" + name, v2, p2])]
        if selection is None:
            ranged = r.choice(["fam", "famplus", "orlater", "only"])
            refk = r.choice(["ref", "docref"])
            rest = [k for k in kinds if k not in (ranged, refk)]
            selection = [ranged, refk] + r.sample(rest, 2)
        return [kinds[k] for k in selection], universe, selection


FIXED_SELECTIONS = [["fam", "ref", "plain", "famplus"], ["orlater", "docref", "withexc", "only"], ["famplus", "ref", "only", "withexc"]]


def run_tree(ctx, name, rng, leaves, selection=None):
    roles = Roles(ctx, rng)
    texts, universe, sel = roles.tree_roles(selection)
    ctx.write_params("MC_Tree_P", {"MaxLeaves": str(leaves), "LeafTexts": tla_seq(texts), "Universe": tla_seq(universe)})
    ctx.notes.append("%s: leaves<=%d roles=%s texts=%s universe=%s" % (name, leaves, sel, texts, universe))
    r = ctx.run_tlc(name, "MC_Tree", "MC_Tree", timeout=3000)
    if r["violated"]:
        # a model-level failure with Dev = {}: if it stems from the shipped tables the replay shows it on the real code too
        ctx.notes.append("%s: TLC reports model-level invariant %s violated" % (name, r["violated"]))
        ctx.model_violation = r["violated"]
    return r


def tree_family(ctx, relevant, flavor, rule):
    rng = random.Random(ctx.seed)
    ctx.model_violation = None
    if ctx.tier == "thorough":
        run_tree(ctx, "tree5", rng, 5, FIXED_SELECTIONS[0])
        run_tree(ctx, "tree4b", rng, 4, FIXED_SELECTIONS[1])
        run_tree(ctx, "tree4c", rng, 4, FIXED_SELECTIONS[2])
        run_tree(ctx, "tree4s", rng, 4)
        ctx.drive("trace", flavor, 1500, leaves=12)
    else:
        run_tree(ctx, "tree4", rng, 4)
        ctx.drive("trace", flavor, 300, leaves=10)
    ctx.validate_trace("trace")
    if ctx.model_violation and not [m for m in ctx.mismatches if m["what"] in relevant]:
        raise Infra("model-level invariant %s failed but the real code agrees with the model's predictions: specification problem" % ctx.model_violation)
    return finish(ctx, relevant=relevant, rule=rule)


def c01(ctx):
    return tree_family(ctx, {"verdict", "non-monotone"}, "sat",
                       "every expression tree up to the leaf bound over 4 role texts from the shipped tables x every non-empty subset of a "
                       "5-entry allowed universe (TLC: parse/precedence, OR-of-ANDs = Boolean evaluation, operational = declarative matcher); "
                       "each (text, list) pair replayed through the real Satisfies in two renderings; random larger trees over the whole "
                       "tables trace-validated; non-trivial = the model predicts 'satisfied' for at least one subset")


def c07(ctx):
    rng = random.Random(ctx.seed)
    thorough = ctx.tier == "thorough"
    ctx.model_violation = None
    # monotonicity over all sub-lists: MC_Tree's verdict vectors (model invariant MonoInv + direct check on the observed verdicts)
    run_tree(ctx, "tree", rng, 4 if thorough else 3)
    # permutations, duplications, re-spellings
    roles = Roles(ctx, rng)
    texts, universe, sel = roles.tree_roles()
    t = ctx.tables
    exprs = [texts[0] + " AND " + texts[2], texts[0] + " OR (" + texts[1] + " AND " + texts[3] + ")", texts[3],
             "(" + texts[2] + " OR " + texts[0] + ") AND " + texts[1], texts[1] + " OR " + texts[3] + " AND " + texts[0]]
    uni = universe[:4] if not thorough else universe
    uni = list(dict.fromkeys(uni))
    ctx.write_params("MC_AllowedSpell_P", {"Exprs": tla_seq(exprs[: 5 if thorough else 3]), "Universe": tla_seq(uni), "MaxDup": "1",
                                           "MaxResp": "2" if thorough else "1", "MixK": str(ctx.seed % 2)})
    ctx.notes.append("allowedspell: exprs=%s universe=%s" % (exprs, uni))
    r = ctx.run_tlc("allowedspell", "MC_AllowedSpell", "MC_AllowedSpell", timeout=3000)
    if r["violated"]:
        raise Infra("model-level invariant %s failed in MC_AllowedSpell (specification problem, not a verdict)" % r["violated"])
    ctx.drive("trace", "sat", 1200 if thorough else 300, leaves=6)
    ctx.validate_trace("trace")
    return finish(ctx, relevant={"verdict", "non-monotone", "verdict-depends-on-list-form"},
                  rule="every non-empty sub-list of the allowed universe in every order, with one entry duplicated and one (thorough: two) "
                       "entries re-spelled (case of listed ids, blanks, one/two pairs of parentheses): the model proves the list denotes the "
                       "same set of terms, the real Satisfies must return the base list's verdict; all A subset-of B pairs for monotonicity; "
                       "non-trivial = more than one list form / satisfied")


def c10(ctx):
    rng = random.Random(ctx.seed)
    thorough = ctx.tier == "thorough"
    roles = Roles(ctx, rng)
    texts, universe, sel = roles.tree_roles()
    ctx.write_params("MC_Tree_P", {"MaxLeaves": "3", "LeafTexts": tla_seq(texts[:3] if not thorough else texts), "Universe": tla_seq(universe)})
    ctx.write_params("MC_Rewrite_P", {"StartLeaves": "3", "MaxSteps": "2" if thorough else "1", "MaxSize": "8" if thorough else "7"})
    ctx.notes.append("rewrite: roles=%s texts=%s universe=%s" % (sel, texts, universe))
    r = ctx.run_tlc("rewrite", "MC_Rewrite", "MC_Rewrite", timeout=3400)
    if r["violated"]:
        raise Infra("model-level invariant %s failed in MC_Rewrite (the rewrite rules themselves are wrong: specification problem)" % r["violated"])
    ctx.model_violation = None
    run_tree(ctx, "tree", rng, 4 if not thorough else 5)
    ctx.drive("trace", "sat", 1200 if thorough else 300, leaves=10)
    ctx.validate_trace("trace")
    return finish(ctx, relevant={"verdict", "extract-invented", "extract-missing", "extract-duplicate", "extract-error", "non-monotone"},
                  rule="every tree up to 3 leaves x every chain of rewrites (commute, re-associate, idempotence, absorption, distribution both "
                       "ways) applied at any node x 3 renderings (minimal/full parentheses, widened blanks) x all allowed subsets: the real "
                       "verdicts must equal the ORIGINAL's; term-preserving chains keep the ExtractLicenses set; '(E) AND (F)' / '(E) OR (F)' "
                       "compositions; non-trivial = satisfied under some subset")


def c06(ctx):
    return tree_family(ctx, {"extract", "extract-error", "extract-invented", "extract-missing", "extract-duplicate",
                             "extract-roundtrip", "extract-self-satisfy"}, "extract",
                       "every expression tree up to the leaf bound (TLC: the expansion keeps every leaf); the real ExtractLicenses output is "
                       "compared term by term with the model's distinct terms, each returned string is re-extracted and the returned list is "
                       "used as allowed list; non-trivial = more than one distinct term")


# --------------------------------------------------------------------------- C02 / C11
def spellings(roles, x, kinds):
    out = []
    for k in kinds:
        if k == "plain":
            out.append(x)
        elif k == "plus" and not x.endswith("-or-later"):
            out.append(x + "+")
        elif k == "only" and roles.suffixable(x):
            out.append(x + "-only")
        elif k == "orlater" and roles.suffixable(x):
            out.append(x + "-or-later")
        elif k == "lower":
            out.append(x.lower())
        elif k == "upper":
            out.append(x.upper())
        elif k == "lowerplus" and not x.endswith("-or-later"):
            out.append(x.lower() + "+")
    return out


def natural_families(ctx):
    """listed ids grouped by shape (python mirror of Versions.tla, used only to CHOOSE texts; the oracle is the model's)"""
    import re
    ver = re.compile(r"^\d+(\.\d+)*[a-z]?$")
    fams = {}
    for x in ctx.tables["active"] + ctx.tables["deprecated"]:
        if x.endswith("+"):
            continue
        b = x
        for sfx in ("-or-later", "-only"):
            if b.endswith(sfx):
                b = b[: -len(sfx)]
        if b.endswith("-only"):
            b = b[:-5]
        cs = b.split("-")
        vi = [i for i, c in enumerate(cs) if ver.match(c)]
        if len(vi) != 1:
            continue
        key = tuple("*" if i == vi[0] else c for i, c in enumerate(cs))
        fams.setdefault(key, []).append(x)
    return {k: v for k, v in fams.items() if len({y for y in v}) >= 2}


def pair_params(ctx, rng, quick, with_cross=True):
    roles = Roles(ctx, rng)
    t = ctx.tables
    ids = [x for x in t["active"] + t["deprecated"] if not x.endswith("+")]
    excs = rng.sample(t["exceptions"], 2)
    texts, blocks = [], []

    def block(ta, tb):
        a0 = len(texts) + 1
        texts.extend(ta)
        a1 = len(texts)
        if tb is ta:
            blocks.append((a0, a1, a0, a1))
        else:
            b0 = len(texts) + 1
            texts.extend(tb)
            blocks.append((a0, a1, b0, len(texts)))

    # (b) every table family and every natural family: full product of members x spellings x exceptions
    fams = [[x for st in fam for x in st if x in ids] for fam in t["ranges"]]
    fams += [v for v in natural_families(ctx).values()]
    kinds = ["plain", "plus", "only", "orlater"] if quick else ["plain", "plus", "only", "orlater", "lower", "upper", "lowerplus"]
    seen = set()
    for fam in fams:
        key = tuple(sorted(set(fam)))
        if key in seen:
            continue
        seen.add(key)
        if quick and len(key) > 12:
            key = tuple(rng.sample(key, 12))
        base = [s for x in key for s in spellings(roles, x, kinds)]
        tx = list(base)
        tx += [s + " WITH " + excs[0] for s in (base if not quick else base[::2])]
        if not quick:
            tx += [s + " WITH " + excs[1] for s in base[::3]]
        block(tx, tx)
    # (a) cross pairs: plain x plain and plus x plus
    if with_cross:
        pick = ids if not quick else rng.sample(ids, 110)
        p = [x for x in pick]
        block(p, p)
        pp = [x + "+" for x in pick if not x.endswith("-or-later")]
        block(pp, pp)
    # (c) refs against everything sampled
    refs = ["LicenseRef-a", "LicenseRef-A", "LicenseRef-b", "DocumentRef-d:LicenseRef-a", "DocumentRef-e:LicenseRef-a", "DocumentRef-d:LicenseRef-b"]
    some = rng.sample(ids, 12) + [x + "+" for x in rng.sample([y for y in ids if not y.endswith("-or-later")], 6)]
    both = refs + some + [some[0] + " WITH " + excs[0]]
    block(both, both)
    return texts, blocks


def run_pairs(ctx, name, rng, quick, with_cross=True):
    texts, blocks = pair_params(ctx, rng, quick, with_cross)
    ctx.write_params("MC_Pairs_P", {"TextsA": tla_seq(texts), "TextsB": "TextsA",
                                    "Blocks": "<<" + ", ".join("<<%d, %d, %d, %d>>" % b for b in blocks) + ">>"})
    npairs = sum((b[1] - b[0] + 1) * (b[3] - b[2] + 1) for b in blocks)
    ctx.notes.append("%s: %d texts, %d blocks, %d ordered pairs" % (name, len(texts), len(blocks), npairs))
    r = ctx.run_tlc(name, "MC_Pairs", "MC_Pairs", timeout=3000, extra=["-continue"])
    if r["summary"]["byKind"].get("pair:table", 0) != npairs:
        raise Infra("%s: %d pairs planned, %s replayed" % (name, npairs, r["summary"]["byKind"].get("pair:table")))
    return r


def c02(ctx):
    rng = random.Random(ctx.seed)
    r = run_pairs(ctx, "pairs", rng, quick=ctx.tier != "thorough")
    ctx.drive("trace", "single", 1500 if ctx.tier == "thorough" else 400)
    ctx.validate_trace("trace")
    viol = sorted(set(__import__("re").findall(r"Invariant (\w+) is violated", r["log"])))
    if viol:
        ctx.notes.append("model-level invariants violated on the shipped tables: %s" % viol)
        if set(viol) - {"PlusNatural"} and not [m for m in ctx.mismatches if m["what"] in ("match", "verdict")]:
            raise Infra("model-level invariants %s failed but the real code agrees with the model's predictions" % viol)
    return finish(ctx, relevant={"match", "verdict"},
                  rule="ordered pairs of single-term texts built from the shipped tables (every table family and natural family x spellings x "
                       "exceptions, cross pairs of listed ids, LicenseRefs); TLC: operational matcher = C02's rule, symmetry, reflexivity, "
                       "license/ref separation; each pair replayed as Satisfies(a, [b]); non-trivial = the model predicts a match")


def c11(ctx):
    rng = random.Random(ctx.seed)
    ctx.run_tlc("ranges", "MC_Ranges", "MC_Ranges", workers=4, timeout=1200)
    nf = len(ctx.tables["ranges"])
    r = run_pairs(ctx, "pairs", rng, quick=ctx.tier != "thorough")
    ctx.drive("trace", "single", 1200 if ctx.tier == "thorough" else 300)
    ctx.validate_trace("trace")
    return finish(ctx, relevant={"plus-natural-order", "plus-natural-order-duplicate-position", "match-duplicate-position",
                                 "verdict-duplicate-position", "table-Listed", "table-OnePosition", "table-OneShape",
                                 "table-Ascending", "table-Complete", "table-Disjoint"},
                  rule="the shipped family table (one TLC state per family, six well-formedness clauses) + ordered pairs of ids/spellings of "
                       "every table family and natural family and cross-family pairs, expected answer from the NATURAL version order; each "
                       "pair replayed as Satisfies(a, [b]); non-trivial = a match is expected",
                  extra_cov={"families_in_table": nf})


# --------------------------------------------------------------------------- C08
def related_texts(ctx, roles, rng, x, quick):
    """texts to confront id x with: its table/natural family members with and without '+', itself, two unrelated ids"""
    t = ctx.tables
    base = x
    for sfx in ("-or-later", "-only"):
        if base.endswith(sfx):
            base = base[: -len(sfx)]
    fam = set()
    for f in t["ranges"]:
        ids = [y for st in f for y in st]
        if base in ids or x in ids:
            fam.update(y for y in ids if not y.endswith("-or-later"))
    for v in ctx.natfams.values():
        if x in v or base in v:
            fam.update(v)
    fam = sorted(fam)
    if quick and len(fam) > 5:
        fam = rng.sample(fam, 5)
    out = [x]
    for y in fam:
        out.append(y)
        out.append(y + "+")
    out += rng.sample(roles.unranged, 2)
    seen, res = set(), []
    for y in out:
        if y not in seen:
            seen.add(y)
            res.append(y)
    return res


def c08(ctx):
    rng = random.Random(ctx.seed)
    roles = Roles(ctx, rng)
    ctx.natfams = natural_families(ctx)
    t = ctx.tables
    quick = ctx.tier != "thorough"
    ids = [x for x in t["active"] + t["deprecated"] if not x.endswith("+")]
    if quick:
        # every id that is in some table or natural family + a seeded sample of the rest
        infam = {y for f in t["ranges"] for st in f for y in st} | {y for v in ctx.natfams.values() for y in v}
        rest = [x for x in ids if x not in infam]
        ids = [x for x in ids if x in infam][:: 2 if ctx.seed % 2 else 1][:140] + rng.sample(rest, 40)
        # always keep the -only/-or-later twins' bases of the GNU families
        ids += [x for x in t["deprecated"] if not x.endswith("+") and x not in ids]
    rel = [related_texts(ctx, roles, rng, x, quick) for x in ids]
    e1, e2 = rng.sample(t["exceptions"], 2)
    ctx.write_params("MC_Spell_P", {"Ids": tla_seq(ids), "Related": "<<" + ", ".join(tla_seq(r) for r in rel) + ">>",
                                    "Exc1": Q(e1), "Exc2": Q(e2), "Plain": Q(rng.choice(roles.unranged))})
    ctx.notes.append("spell: %d ids, %d (id, related) states" % (len(ids), sum(len(r) for r in rel)))
    r = ctx.run_tlc("spell", "MC_Spell", "MC_Spell", timeout=3000, extra=["-continue"])
    import re as _re
    viol = sorted(set(_re.findall(r"Invariant (\w+) is violated", r["log"])))
    if viol:
        ctx.notes.append("model-level invariants violated on the shipped tables: %s" % viol)
    ctx.drive("trace", "spell", 1200 if not quick else 300)
    ctx.validate_trace("trace")
    rel_whats = {"not-interchangeable", "validity", "verdict"}
    if viol and not [m for m in ctx.mismatches if m["what"] in rel_whats]:
        raise Infra("model-level invariants %s failed but no disagreement was reproduced on the real code" % viol)
    return finish(ctx, relevant=rel_whats,
                  rule="listed ids x {X ~ X-only, X+ ~ X-or-later} x contexts (expression side / allowed side against family members with and "
                       "without '+', none/same/other exception, six syntactic contexts); TLC: the model predicts identical results for both "
                       "spellings; real code: both calls of every context must agree with each other and with the model; non-trivial = satisfied")


# --------------------------------------------------------------------------- C09
def c09(ctx):
    rng = random.Random(ctx.seed)
    roles = Roles(ctx, rng)
    t = ctx.tables
    quick = ctx.tier != "thorough"
    lic = [x for x in t["active"] + t["deprecated"] if not x.endswith("+")]
    exc = list(t["exceptions"])
    if quick:
        lic = rng.sample(lic, 220)
        exc = rng.sample(exc, 30)
    p1, p2 = rng.sample(roles.unranged, 2)
    ctx.write_params("MC_Case_P", {"LicIds": tla_seq(lic), "ExcIds": tla_seq(exc), "MixK": str(ctx.seed % 2), "P1": Q(p1), "P2": Q(p2)})
    extra_inv = ""
    ctx.write_cfg("MC_Case", invariants=["CaseInv", "Emit"])
    # FoldUnique is an assumption about the whole shipped lists: check it as an invariant of the initial state
    with open(os.path.join(ctx.spec, "MC_Case.cfg"), "a") as f:
        f.write("INVARIANT FoldUnique\n")
    r = ctx.run_tlc("case", "MC_Case", "MC_Case", timeout=3000, extra=["-continue"])
    import re as _re
    viol = sorted(set(_re.findall(r"Invariant (\w+) is violated", r["log"])))
    ctx.drive("trace", "case", 1200 if not quick else 300)
    ctx.validate_trace("trace")
    rel = {"not-interchangeable", "validity", "verdict", "extract", "extract-error", "extract-invented", "extract-missing", "extract-duplicate", "extract-roundtrip"}
    if viol:
        ctx.notes.append("model-level invariants violated on the shipped tables: %s" % viol)
        if not [m for m in ctx.mismatches if m["what"] in rel]:
            raise Infra("model-level invariants %s failed but no disagreement was reproduced on the real code" % viol)
    return finish(ctx, relevant=rel,
                  rule="listed license and exception ids x {lower, upper, alternating} case x {alone, in a 3-term expression, as allowed entry, "
                       "after WITH}; TLC: the scanner model yields the same token for every variant, lists are fold-unique; real code: validity, "
                       "verdict equal to the list spelling's, ExtractLicenses reports list casing; non-trivial = satisfied")


# --------------------------------------------------------------------------- lexeme vocabulary (C03 C04 C05 C15)
def lex_vocab(ctx, rng, focus="all"):
    roles = Roles(ctx, rng)
    t = ctx.tables
    act = set(t["active"])
    plain, plain2, plain3 = rng.sample(roles.unranged, 3)
    dep_fold = [x for x in t["deprecated"] if not x.endswith("+") and x + "-or-later" in act]
    dep_plain = [x for x in t["deprecated"] if not x.endswith("+") and x + "-or-later" not in act and x + "-only" not in act]
    listed_only = [x for x in t["active"] if x.endswith("-only")]
    listed_later = [x for x in t["active"] if x.endswith("-or-later")]
    exc = rng.choice(t["exceptions"])
    low = {x.lower() for x in t["active"] + t["deprecated"] + t["exceptions"]}
    unknown = next(u for u in ["FOO", "Foo-1.0", "x.y", "NotALicense"] if u.lower() not in low)
    V = []

    def add(text, kd, c=None):
        V.append((text, kd, c if c is not None else text))

    add(plain, "plainL")
    if dep_fold:
        add(rng.choice(dep_fold), "depFold")
    add(plain2 + "-or-later", "unlistedLater", plain2)
    add(unknown, "unknown")
    add("LicenseRef-a", "LR", "a")
    add("DocumentRef-d", "DR", "d")
    for o in [":", "(", ")", "AND", "OR", "WITH"]:
        add(o, "op")
    add("+", "plus")
    add(exc, "exc")
    add("LicenseRef-", "bareLR")
    add("#", "other")
    if focus == "all":
        if listed_only:
            add(rng.choice(listed_only), "listedOnly")
        if listed_later:
            add(rng.choice(listed_later), "listedLater")
        add(plain3 + "-only", "unlistedOnly", plain3)
        if dep_plain:
            add(rng.choice(dep_plain), "depPlain")
        add(plain.lower() if plain.lower() != plain else plain3.lower(), "lowerL", plain if plain.lower() != plain else plain3)
        add("and", "lowerop")
        add("DocumentRef-", "bareDR")
    return V


def vocab_tla(V):
    return "<<" + ",\n  ".join('[t |-> %s, kd |-> %s, c |-> %s]' % (Q(a), Q(b), Q(c)) for a, b, c in V) + ">>"


def run_lex(ctx, name, rng, maxlex, seps, focus="all", prefixes=("",)):
    V = lex_vocab(ctx, rng, focus)
    ctx.write_params("MC_Lex_P", {"MaxLex": str(maxlex), "Seps": tla_seq(seps), "Vocab": vocab_tla(V), "Prefixes": tla_seq(prefixes)})
    ctx.notes.append("%s: %d lexemes %s, <=%d per text, separators %s" % (name, len(V), [v[0] for v in V], maxlex, seps))
    r = ctx.run_tlc(name, "MC_Lex", "MC_Lex", timeout=3000, reps=2 if ctx.tier == "thorough" else 1)
    if r["violated"]:
        raise Infra("model-level invariant %s failed in MC_Lex with Dev = {} (specification problem, not a verdict)" % r["violated"])
    want = r["distinct"] - (1 if "" in prefixes else 0)
    if r["summary"]["byKind"].get("str", 0) != want:
        raise Infra("%s: %d texts emitted, TLC found %d states" % (name, r["summary"]["byKind"].get("str", 0), r["distinct"]))
    return r


def offset_prefixes(ctx, rng):
    """lexically clean prefixes containing -or-later forms, '+', spaces and parentheses (C15's quantifier)"""
    roles = Roles(ctx, rng)
    t = ctx.tables
    p1, p2, p3 = rng.sample(roles.unranged, 3)
    A, B = p1 + "-or-later", p2 + "-or-later"
    act = set(t["active"])
    fold = [x for x in t["deprecated"] if not x.endswith("+") and x + "-or-later" in act]
    G = (rng.choice(fold) + "+") if fold else p3 + "+"
    E = rng.choice(t["exceptions"])
    return ["", A + " AND ", "(" + A + ") OR ", "(" + A + " AND ", A + " WITH " + E + " AND ", "  " + A + "  AND  ", G + " AND ",
            p3 + "+ OR (", A + " AND " + B + " OR ", A + " AND (" + B + ") AND ", "(" + A + " OR " + B + ") AND ", "(" + A + ")OR(",
            "DocumentRef-d:LicenseRef-a AND ", p3 + "-only AND ", A.lower() + " AND ", B + " OR " + A + " WITH "]


# --------------------------------------------------------------------------- C15
def c15(ctx):
    rng = random.Random(ctx.seed)
    thorough = ctx.tier == "thorough"
    pre = offset_prefixes(ctx, rng)
    if thorough:
        run_lex(ctx, "offsets3", rng, 3, [" "], focus="core", prefixes=pre)
        run_lex(ctx, "lex3", rng, 3, [" ", "  "])
    else:
        run_lex(ctx, "offsets2", rng, 2, [" "], prefixes=pre)
    ctx.drive("trace", "invalid", 1500 if thorough else 400, leaves=6)
    ctx.validate_trace("trace")
    return finish(ctx, relevant={"offset", "lexeme", "offset-no-error"},
                  rule="valid prefixes (with -or-later forms, '+', spaces, parentheses) x every lexeme sequence up to the bound ending in an "
                       "unknown id, a Ref prefix without a name or a foreign byte; the model scanner's caller-relative position and lexeme "
                       "are compared with the offset/lexeme parsed from the error text of ExtractLicenses and Satisfies (expression and "
                       "allowed-entry position); non-trivial = offset > 0")


# --------------------------------------------------------------------------- C04
def run_lists(ctx, name, rng, maxlist):
    roles = Roles(ctx, rng)
    t = ctx.tables
    p1, p2 = rng.sample(roles.unranged, 2)
    exc = rng.choice(t["exceptions"])
    pool = [p1, p1.lower() if p1.lower() != p1 else p1.upper(), p1 + " AND " + p2, "(" + p2 + ")", "FOO-bar", p1 + " AND", "(",
            "", p2 + " WITH " + exc]
    exprs = [p1 + " OR " + p2, p1 + " OR", ""]
    ctx.write_params("MC_Lists_P", {"MaxList": str(maxlist), "Pool": tla_seq(pool), "Exprs": tla_seq(exprs)})
    ctx.notes.append("%s: pool %s, expressions %s, lists up to %d" % (name, pool, exprs, maxlist))
    r = ctx.run_tlc(name, "MC_Lists", "MC_Lists", timeout=3000)
    if r["violated"]:
        raise Infra("model-level invariant %s failed in MC_Lists (specification problem, not a verdict)" % r["violated"])
    return r


C04_WHATS = {"validity-disagreement", "validate-list", "result-with-error", "invalid-allowed-entry-accepted", "allowed-entry",
             "validate", "validity", "validate-shape", "verdict", "extract-error"}


def c04(ctx):
    rng = random.Random(ctx.seed)
    thorough = ctx.tier == "thorough"
    run_lists(ctx, "lists", rng, 4 if thorough else 3)
    run_lex(ctx, "lex3", rng, 3, [" "] if not thorough else [" ", "  "])
    lexL, lexE = pick_plain(ctx, rng), rng.choice(ctx.tables["exceptions"])
    ctx.write_cfg("MC_Tok", constants={"MaxLen": 5 if thorough else 4, "LexL": Q(lexL), "LexE": Q(lexE)},
                  invariants=["GrammarInv", "TotalInv", "RoundTrip", "Emit"])
    r = ctx.run_tlc("tok", "MC_Tok", "MC_Tok", timeout=3000)
    if r["violated"]:
        raise Infra("model-level invariant %s failed in MC_Tok" % r["violated"])
    ctx.drive("trace", "lists", 1000 if thorough else 300, leaves=5)
    ctx.validate_trace("trace")
    return finish(ctx, relevant=C04_WHATS,
                  rule="every list up to the bound over a 9-string pool as ValidateLicenses argument and as allowed list of three expressions; "
                       "every lexeme text and token sequence as single argument of all three entry points (agreement on validity, result "
                       "false/nil with every error, exact invalid list); non-trivial = mixed valid/invalid list or valid text")


# --------------------------------------------------------------------------- C03
def c03(ctx):
    rng = random.Random(ctx.seed)
    thorough = ctx.tier == "thorough"
    lexL, lexE = pick_plain(ctx, rng), rng.choice(ctx.tables["exceptions"])
    ctx.write_cfg("MC_Tok", constants={"MaxLen": 6 if thorough else 5, "LexL": Q(lexL), "LexE": Q(lexE)},
                  invariants=["GrammarInv", "TotalInv", "RoundTrip", "Emit"])
    r = ctx.run_tlc("tok", "MC_Tok", "MC_Tok", timeout=3000)
    if r["violated"]:
        raise Infra("model-level invariant %s failed in MC_Tok" % r["violated"])
    run_lex(ctx, "lex3", rng, 3, [" "] if not thorough else [" ", "  "])
    if thorough:
        run_lex(ctx, "lex4", rng, 4, [" "], focus="core")
    run_tree(ctx, "tree", rng, 4)
    run_lists(ctx, "lists", rng, 3)
    ctx.drive("trace", "invalid", 2000 if thorough else 500, leaves=8)
    ctx.validate_trace("trace")
    return finish(ctx, relevant={"panic"},
                  rule="all token-class sequences, lexeme texts (incl. foreign bytes, truncated Ref prefixes), expression trees x allowed "
                       "subsets and argument lists the model enumerates, each run through all three exported functions under recover(); "
                       "TLC: the descent's cursor is total (no PANIC outcome reachable); non-trivial = valid input")


# ---------------------------------------------------------------------------


# --------------------------------------------------------------------------- C05
def c05(ctx):
    rng = random.Random(ctx.seed)
    thorough = ctx.tier == "thorough"
    lexL = pick_plain(ctx) if ctx.seed == 1 else pick_plain(ctx, rng)
    lexE = ctx.tables["exceptions"][0] if ctx.seed == 1 else rng.choice(ctx.tables["exceptions"])
    ctx.write_cfg("MC_Tok", constants={"MaxLen": 6 if thorough else 5, "LexL": Q(lexL), "LexE": Q(lexE)},
                  invariants=["GrammarInv", "TotalInv", "RoundTrip", "Emit"])
    r = ctx.run_tlc("tok", "MC_Tok", "MC_Tok", timeout=3000)
    if r["violated"]:
        raise Infra("model-level invariant %s failed in MC_Tok with Dev = {} (specification problem, not a verdict)" % r["violated"])
    n = r["summary"].get("tokenSequences", 0)
    if n != r["distinct"] - 1:
        raise Infra("token space: replayer enumerated %d sequences, TLC found %d states" % (n, r["distinct"]))
    if thorough:
        run_lex(ctx, "lex4", rng, 4, [" "], focus="core")
        run_lex(ctx, "lex3", rng, 3, [" ", "  "])
    else:
        run_lex(ctx, "lex3", rng, 3, [" "])
    ctx.drive("trace", "invalid", 600 if thorough else 250, leaves=6)
    ctx.validate_trace("trace")
    return finish(ctx, relevant={"validity"},
                  rule="every token-class sequence up to the bound (TLC: descent vs reference grammar, scanner round trip; real code: "
                       "ValidateLicenses/ExtractLicenses/Satisfies on 4 renderings of each) + mutated valid expressions trace-validated; "
                       "non-trivial = accepted by the grammar")


CHECKS = {"C01": c01, "C02": c02, "C03": c03, "C04": c04, "C15": c15, "C05": c05, "C06": c06, "C07": c07, "C08": c08, "C10": c10, "C09": c09, "C11": c11}

MC = "model_checking"
INFO = {
    "C05": dict(level=MC, ref="5 (C05)", technique="TLC exhaustive enumeration of token/lexeme sequences against a reference grammar + replay on real code + trace validation",
                text="TLC enumerates every token-class sequence up to the bound and checks that the transcribed recursive descent accepts exactly "
                     "the documented grammar and that the character-level scanner model reads each rendering back as those tokens; every sequence "
                     "is then rendered (loose/tight, model and seed-chosen lexemes) and run through the real ValidateLicenses/ExtractLicenses/"
                     "Satisfies, whose validity verdict must equal the model's; mutated expressions from the whole tables are trace-validated.",
                note="Exhaustive only up to the stated token/lexeme bounds; inputs outside the documented vocabulary (R1-R3 in DESIGN.md) are "
                     "checked relationally only. Trusted: TLC, the Go toolchain, the rendering code shared by model and harness (cross-checked "
                     "by the RoundTrip invariant)."),
}


def setup():
    """build the harness once (warms the Go build cache) and parse every specification module"""
    ctx = Ctx("setup", "quick", 1)
    try:
        ctx.build()
        ctx.export()
        for m in sorted(glob.glob(os.path.join(ctx.spec, "*.tla"))):
            p = subprocess.run(["java", "-cp", TLA_CP, "tla2sany.SANY", os.path.basename(m)], cwd=ctx.spec, capture_output=True, text=True)
            if p.returncode != 0 or "Semantic errors" in p.stdout or "*** Errors" in p.stdout or "Could not parse" in p.stdout:
                log(p.stdout[-3000:])
                log("SANY failed for", m)
                return 2
        log("setup ok")
        return 0
    except Infra as e:
        log("setup failed:", e)
        return 2


def replay(prop, path):
    """re-run one recorded disagreement on the current tree"""
    ctx = Ctx(prop, "quick", 1)
    try:
        ctx.build()
    except Infra as e:
        log(e)
        return 2
    with open(path) as f:
        m = json.load(f)
    p = subprocess.run([ctx.harness, "run1", path], capture_output=True, text=True)
    sys.stdout.write(p.stdout)
    sys.stderr.write(p.stderr)
    return p.returncode
