"""Per-property checks.  Each takes a Ctx (harness built from the working tree, tables exported,
spec copied into the scratch directory) and returns the exit code."""
import glob, json, os, random, shutil, subprocess, sys, tempfile
from .core import Ctx, Infra, finish, log, sessions, large_inputs, repetitions, journal_env, after_harness, looks_fatal, VERIF, REPO, TLA_CP, GOENV, NCPU

Q = lambda s: '"%s"' % s  # TLA+ string constant


def pick_plain(ctx, rng=None):
    """an active id that the scanner reads as itself whatever follows (no suffix, no listed -or-later twin)"""
    t = ctx.tables
    low = {x.lower() for x in t["active"] + t["exceptions"]}
    plain = [x for x in t["active"] if not x.endswith("-only") and not x.endswith("-or-later") and x.lower() + "-or-later" not in low]
    if rng is None:
        return "MIT" if "MIT" in plain else plain[0]
    return rng.choice(plain)


def tla_seq(strs):
    return "<<" + ", ".join(Q(x) for x in strs) + ">>"


class Roles:
    """Concrete texts for abstract roles, chosen from the shipped tables by predicate (never by name)."""

    def __init__(self, ctx, rng):
        t = ctx.tables
        self.t, self.rng = t, rng
        active = set(t["active"])
        low = {x.lower() for x in t["active"] + t["exceptions"]}
        self.plain = [x for x in t["active"] if not x.endswith("-only") and not x.endswith("-or-later") and x.lower() + "-or-later" not in low]
        pos = {}
        for fi, fam in enumerate(t["ranges"]):
            for si, step in enumerate(fam):
                for x in step:
                    pos.setdefault(x, []).append((fi, si))
        self.pos = pos
        # families usable as roles: >= 2 steps, every member listed, at one position, not an inert -or-later alias
        self.fams = []
        for fi, fam in enumerate(t["ranges"]):
            steps = [[x for x in st if len(pos[x]) == 1 and not x.endswith("-or-later") and (x in active or x in t["deprecated"])] for st in fam]
            steps = [st for st in steps if st]
            if len(steps) >= 2 and all(len(pos[x]) == 1 for st in fam for x in st):
                self.fams.append(steps)
        self.unranged = [x for x in self.plain if x not in pos]

    def suffixable(self, x):
        return x in self.t["active"] and not x.endswith("-only") and not x.endswith("-or-later")

    def family(self, min_steps=2):
        c = [f for f in self.fams if len(f) >= min_steps]
        return self.rng.choice(c)

    def tree_roles(self, selection=None):
        """returns (leaf texts by kind, universe)"""
        r = self.rng
        fam = self.family(3) if r.random() < 0.7 else self.family(2)
        i1 = r.randrange(0, len(fam) - 1)
        i2 = r.randrange(i1 + 1, len(fam))
        v1, v2 = r.choice(fam[i1]), r.choice(fam[i2])
        lowest = r.choice(fam[r.randrange(0, i1 + 1)])
        exc = r.choice(self.t["exceptions"])
        p1, p2, p3 = r.sample(self.unranged, 3)
        name = r.choice(["a", "x-1", "1.0", "MIT", "Foo.bar"])
        doc = r.choice(["d", "spdx-tool-1.2", "X"])
        sfx = [x for st in fam for x in st if self.suffixable(x)]
        kinds = {
            "plain": p1,
            "fam": v1,
            "famplus": v2 + "+",
            "orlater": (r.choice(sfx) + "-or-later") if sfx else v1 + "+",
            "only": (r.choice(sfx) + "-only") if sfx else v2,
            "withexc": p2 + " WITH " + exc,
            "ref": "LicenseRef-" + name,
            "docref": "DocumentRef-" + doc + ":LicenseRef-" + name,
        }
        # '+' on a deprecated id with a listed -or-later twin is folded by the scanner: still a fine text
        universe = [v1, lowest + "+", p1 if r.random() < 0.5 else p3, "LicenseRef-" + name,
                    r.choice([p2 + " WITH " + exc, "DocumentRef-" + doc + ":LicenseRef-" + name, v2, p2])]
        if selection is None:
            ranged = r.choice(["fam", "famplus", "orlater", "only"])
            refk = r.choice(["ref", "docref"])
            rest = [k for k in kinds if k not in (ranged, refk)]
            selection = [ranged, refk] + r.sample(rest, 2)
        return [kinds[k] for k in selection], universe, selection


def sameid_roles(roles):
    """leaves that share ONE license id and differ only in '+' and the exception; the universe holds the id plain, with '+',
    under two exceptions, and a later version (reached only through '+')"""
    r = roles.rng
    fam = roles.family(2)
    i1 = r.randrange(0, len(fam) - 1)
    v1 = r.choice([x for x in fam[i1]])
    later = r.choice(fam[r.randrange(i1 + 1, len(fam))])
    e1, e2 = r.sample(roles.t["exceptions"], 2)
    plus = v1 + "+" if not v1.endswith("-or-later") else v1
    leaves = [v1, v1 + " WITH " + e1, later, v1 + " WITH " + e2]
    universe = [v1, plus, v1 + " WITH " + e1, v1 + " WITH " + e2, later]
    return leaves, universe


def samestep_roles(roles):
    """two different ids of one version step (e.g. GPL-2.0 / GPL-2.0-only), a case variant of a listed -or-later id, a later version"""
    r = roles.rng
    t = roles.t
    cands = []
    for fam in t["ranges"]:
        for si, st in enumerate(fam[:-1]):
            ids = [x for x in st if len(roles.pos[x]) == 1 and not x.endswith("-or-later")]
            if len(ids) >= 2:
                laters = [y for st2 in fam[si + 1:] for y in st2 if len(roles.pos[y]) == 1 and not y.endswith("-or-later")]
                if laters:
                    cands.append((ids, laters))
    if not cands:
        return sameid_roles(roles)
    ids, laters = r.choice(cands)
    x, y = r.sample(ids, 2)
    later = r.choice(laters)
    gnu = [z for z in t["active"] if z.endswith("-or-later") and z[:-9] in (x, y)]
    ranged = (r.choice(gnu).upper() if gnu else x + "+")
    leaves = [x, y, ranged, later]
    universe = [x, y, later, x + "+", r.choice(roles.unranged)]
    return leaves, universe


def reftwin_roles(roles):
    """references that differ ONLY in letter case (reference names are matched exactly), next to a listed id and its case variant
    (listed ids are not): a key that folds case confuses the first pair and must not confuse the second"""
    r = roles.rng
    name = r.choice(["Acme", "Foo.bar", "x-Y", "Abc"])
    doc = r.choice(["Doc", "Spdx-Tool"])
    p1 = r.choice([x for x in roles.unranged if x.lower() != x])
    leaves = ["LicenseRef-" + name, "LicenseRef-" + name.lower(), "DocumentRef-" + doc + ":LicenseRef-" + name, p1.lower()]
    universe = ["LicenseRef-" + name, "LicenseRef-" + name.lower(), "DocumentRef-" + doc.lower() + ":LicenseRef-" + name,
                "DocumentRef-" + doc + ":LicenseRef-" + name, p1]
    return leaves, universe


FIXED_SELECTIONS = [["fam", "ref", "plain", "famplus"], ["orlater", "docref", "withexc", "only"], ["famplus", "ref", "only", "withexc"]]


def run_tree(ctx, name, rng, leaves, selection=None):
    roles = Roles(ctx, rng)
    if selection == "sameid":
        texts, universe = sameid_roles(roles)
        sel = "same id, different '+' / exception"
    elif selection == "samestep":
        texts, universe = samestep_roles(roles)
        sel = "two ids of one version step, case variant of a listed -or-later id"
    elif selection == "reftwins":
        texts, universe = reftwin_roles(roles)
        sel = "references differing only in letter case, a listed id in lower case"
    else:
        texts, universe, sel = roles.tree_roles(selection)
    ctx.write_params("MC_Tree_P", {"MaxLeaves": str(leaves), "LeafTexts": tla_seq(texts), "Universe": tla_seq(universe)})
    ctx.notes.append("%s: leaves<=%d roles=%s texts=%s universe=%s" % (name, leaves, sel, texts, universe))
    r = ctx.run_tlc(name, "MC_Tree", "MC_Tree", timeout=3000)
    if r["violated"]:
        # a model-level failure with Dev = {}: if it stems from the shipped tables the replay shows it on the real code too
        ctx.notes.append("%s: TLC reports model-level invariant %s violated" % (name, r["violated"]))
        ctx.model_violation = r["violated"]
    return r


def tree_family(ctx, relevant, flavor, rule):
    rng = random.Random(ctx.seed)
    ctx.model_violation = None
    if ctx.tier == "thorough":
        run_tree(ctx, "tree5", rng, 5, FIXED_SELECTIONS[0])
        run_tree(ctx, "tree4b", rng, 4, FIXED_SELECTIONS[1])
        run_tree(ctx, "tree4c", rng, 4, FIXED_SELECTIONS[2])
        run_tree(ctx, "tree4s", rng, 4)
        ctx.drive("trace", flavor, 1500, leaves=12)
        run_tree(ctx, "tree4-sameid", rng, 4, "sameid")
        run_tree(ctx, "tree4-samestep", rng, 4, "samestep")
        run_tree(ctx, "tree4-reftwins", rng, 4, "reftwins")
    else:
        run_tree(ctx, "tree4", rng, 4)
        run_tree(ctx, "tree3-sameid", rng, 3, "sameid")
        run_tree(ctx, "tree3-samestep", rng, 3, "samestep")
        run_tree(ctx, "tree3-reftwins", rng, 3, "reftwins")
        ctx.drive("trace", flavor, 300, leaves=10)
    ctx.validate_trace("trace")
    if ctx.model_violation and not [m for m in ctx.mismatches if m["what"] in relevant]:
        raise Infra("model-level invariant %s failed but the real code agrees with the model's predictions: specification problem" % ctx.model_violation)
    sessions(ctx)
    large_inputs(ctx)
    repetitions(ctx)
    return finish(ctx, relevant=relevant, rule=rule)


def c01(ctx):
    return tree_family(ctx, {"verdict", "non-monotone"}, "sat",
                       "every expression tree up to the leaf bound over 4 role texts from the shipped tables x every non-empty subset of a "
                       "5-entry allowed universe (TLC: parse/precedence, OR-of-ANDs = Boolean evaluation, operational = declarative matcher); "
                       "each (text, list) pair replayed through the real Satisfies in two renderings; random larger trees over the whole "
                       "tables trace-validated; non-trivial = the model predicts 'satisfied' for at least one subset")


def c07(ctx):
    rng = random.Random(ctx.seed)
    thorough = ctx.tier == "thorough"
    ctx.model_violation = None
    # monotonicity over all sub-lists: MC_Tree's verdict vectors (model invariant MonoInv + direct check on the observed verdicts)
    run_tree(ctx, "tree", rng, 4 if thorough else 3)
    run_tree(ctx, "tree-sameid", rng, 4 if thorough else 3, "sameid")
    run_tree(ctx, "tree-samestep", rng, 4 if thorough else 3, "samestep")
    # permutations, duplications, re-spellings
    roles = Roles(ctx, rng)
    texts, universe, sel = roles.tree_roles()
    t = ctx.tables
    exprs = [texts[0] + " AND " + texts[2], texts[0] + " OR (" + texts[1] + " AND " + texts[3] + ")", texts[3],
             "(" + texts[2] + " OR " + texts[0] + ") AND " + texts[1], texts[1] + " OR " + texts[3] + " AND " + texts[0]]
    # (measured: 4 entries, one duplicate, two re-spellings = about 100 k states per expression at ~500 states/s)
    uni = list(dict.fromkeys(universe[:4]))
    ctx.write_params("MC_AllowedSpell_P", {"Exprs": tla_seq(exprs[: 3 if thorough else 2]), "Universe": tla_seq(uni), "MaxDup": "1",
                                           "MaxResp": "2" if thorough else "1", "MixK": str(ctx.seed % 2)})
    ctx.notes.append("allowedspell: exprs=%s universe=%s" % (exprs, uni))
    r = ctx.run_tlc("allowedspell", "MC_AllowedSpell", "MC_AllowedSpell", timeout=3000)
    if r["violated"]:
        raise Infra("model-level invariant %s failed in MC_AllowedSpell (specification problem, not a verdict)" % r["violated"])
    # entries that share an id and differ only in the exception; a listed -or-later id whose match goes through the version range
    act = set(t["active"])
    gnu = [x for x in t["active"] if x.endswith("-or-later") and x[:-9] in roles.pos and any(
        roles.pos[y][0][0] == roles.pos[x[:-9]][0][0] and roles.pos[y][0][1] > roles.pos[x[:-9]][0][1] for y in roles.pos if len(roles.pos[y]) == 1 and y in act)]
    fam = roles.family(2)
    x = rng.choice(fam[0])
    e1, e2 = rng.sample(t["exceptions"], 2)
    z = max(rng.sample(roles.unranged, 4))          # an entry that sorts late
    uni2 = [x + " WITH " + e1, x + " WITH " + e2, x, z]
    exprs2 = [x + " WITH " + e2, x + " WITH " + e1 + " AND " + z, x + " OR " + z]
    if gnu:
        g = rng.choice(gnu)
        base = g[:-9]
        laters = [y for y in roles.pos if len(roles.pos[y]) == 1 and y in act and roles.pos[y][0][0] == roles.pos[base][0][0]
                  and roles.pos[y][0][1] > roles.pos[base][0][1] and not y.endswith("-or-later")]
        uni2[3] = g
        exprs2[1] = rng.choice(laters) + " AND " + x + " WITH " + e1
        exprs2[2] = rng.choice(laters)
    ctx.write_params("MC_AllowedSpell_P", {"Exprs": tla_seq(exprs2[:3]), "Universe": tla_seq(uni2), "MaxDup": "1",
                                           "MaxResp": "1", "MixK": str(ctx.seed % 2)})
    ctx.notes.append("allowedspell-sameid: exprs=%s universe=%s" % (exprs2, uni2))
    r = ctx.run_tlc("allowedspell-sameid", "MC_AllowedSpell", "MC_AllowedSpell", timeout=3000)
    if r["violated"]:
        raise Infra("model-level invariant %s failed in MC_AllowedSpell (specification problem, not a verdict)" % r["violated"])
    # reference names that differ only in letter case (names are case-sensitive), next to a late-sorting entry
    uni3 = ["LicenseRef-Acme", "LicenseRef-acme", "DocumentRef-D:LicenseRef-x", "DocumentRef-d:LicenseRef-x", z]
    exprs3 = ["LicenseRef-acme", "LicenseRef-Acme AND " + z, "DocumentRef-d:LicenseRef-x OR LicenseRef-acme"]
    ctx.write_params("MC_AllowedSpell_P", {"Exprs": tla_seq(exprs3), "Universe": tla_seq(uni3 if thorough else uni3[:2] + uni3[3:]), "MaxDup": "1",
                                           "MaxResp": "1", "MixK": str(ctx.seed % 2)})
    ctx.notes.append("allowedspell-casetwins: exprs=%s universe=%s" % (exprs3, uni3))
    r = ctx.run_tlc("allowedspell-casetwins", "MC_AllowedSpell", "MC_AllowedSpell", timeout=3000)
    if r["violated"]:
        raise Infra("model-level invariant %s failed in MC_AllowedSpell (specification problem, not a verdict)" % r["violated"])
    ctx.drive("trace", "sat", 1200 if thorough else 300, leaves=6)
    ctx.validate_trace("trace")
    sessions(ctx)
    large_inputs(ctx)
    repetitions(ctx)
    return finish(ctx, relevant={"verdict", "non-monotone", "verdict-depends-on-list-form"},
                  rule="every non-empty sub-list of the allowed universe in every order, with one entry duplicated and one (thorough: two) "
                       "entries re-spelled (case of listed ids, blanks, one/two pairs of parentheses): the model proves the list denotes the "
                       "same set of terms, the real Satisfies must return the base list's verdict; all A subset-of B pairs for monotonicity; "
                       "non-trivial = more than one list form / satisfied")


def c10(ctx):
    rng = random.Random(ctx.seed)
    thorough = ctx.tier == "thorough"
    roles = Roles(ctx, rng)
    texts, universe, sel = roles.tree_roles()
    stexts, suniverse = sameid_roles(roles)
    ttexts, tuniverse = samestep_roles(roles)
    rtexts, runiverse = reftwin_roles(roles)
    # (measured: ~200 states/s with replay; one rewrite from every tree <= 3 leaves over 3 labels = 10 k states, over 4 labels = 15 k;
    #  two rewrites from every tree <= 2 leaves over 4 labels = 45 k)
    if thorough:
        runs = [("rewrite", texts, universe, "3", "1", sel),
                ("rewrite-2steps", texts, universe[:4], "2", "2", sel),
                ("rewrite-sameid", stexts, suniverse, "3", "1", "same id, different '+' / exception"),
                ("rewrite-samestep", ttexts, tuniverse, "3", "1", "two ids of one step, case variant"),
                ("rewrite-reftwins", rtexts, runiverse, "3", "1", "references differing only in letter case"),
                ("rewrite-sameid-2steps", stexts, suniverse[:4], "2", "2", "same id, different '+' / exception")]
    else:
        runs = [("rewrite", texts[:3], universe[:4], "3", "1", sel),
                ("rewrite-sameid", stexts[:3], suniverse[:4], "2", "1", "same id, different '+' / exception"),
                ("rewrite-samestep", ttexts[:3], tuniverse[:4], "2", "1", "two ids of one step, case variant"),
                ("rewrite-reftwins", rtexts[:3], runiverse[:4], "2", "1", "references differing only in letter case")]
    for name, tx, uni, start, steps, what in runs:
        ctx.write_params("MC_Tree_P", {"MaxLeaves": "3", "LeafTexts": tla_seq(tx), "Universe": tla_seq(uni)})
        ctx.write_params("MC_Rewrite_P", {"StartLeaves": start, "MaxSteps": steps, "MaxSize": "8" if thorough else "7"})
        ctx.notes.append("%s: roles=%s texts=%s universe=%s" % (name, what, tx, uni))
        r = ctx.run_tlc(name, "MC_Rewrite", "MC_Rewrite", timeout=3400)
        if r["violated"]:
            raise Infra("model-level invariant %s failed in MC_Rewrite (the rewrite rules themselves are wrong: specification problem)" % r["violated"])
    ctx.model_violation = None
    run_tree(ctx, "tree", rng, 3 if not thorough else 4)   # (5 leaves = 20 min; C01 and C06 run that)
    run_tree(ctx, "tree-sameid", rng, 3 if not thorough else 4, "sameid")
    run_tree(ctx, "tree-samestep", rng, 3 if not thorough else 4, "samestep")
    run_tree(ctx, "tree-reftwins", rng, 3 if not thorough else 4, "reftwins")
    ctx.drive("trace", "sat", 1200 if thorough else 300, leaves=10)
    ctx.validate_trace("trace")
    sessions(ctx)
    large_inputs(ctx)
    repetitions(ctx)
    return finish(ctx, relevant={"verdict", "extract", "extract-invented", "extract-missing", "extract-duplicate", "extract-error", "non-monotone"},
                  rule="every tree up to 3 leaves x every chain of rewrites (commute, re-associate, idempotence, absorption, distribution both "
                       "ways) applied at any node x 3 renderings (minimal/full parentheses, widened blanks) x all allowed subsets: the real "
                       "verdicts must equal the ORIGINAL's; term-preserving chains keep the ExtractLicenses set; '(E) AND (F)' / '(E) OR (F)' "
                       "compositions; leaf texts: seeded roles and terms sharing one id; non-trivial = satisfied under some subset")


def c06(ctx):
    return tree_family(ctx, {"extract", "extract-error", "extract-invented", "extract-missing", "extract-duplicate",
                             "extract-roundtrip", "extract-self-satisfy"}, "extract",
                       "every expression tree up to the leaf bound (TLC: the expansion keeps every leaf); the real ExtractLicenses output is "
                       "compared term by term with the model's distinct terms, each returned string is re-extracted and the returned list is "
                       "used as allowed list; non-trivial = more than one distinct term")


# --------------------------------------------------------------------------- C02 / C11
def spellings(roles, x, kinds):
    out = []
    for k in kinds:
        if k == "plain":
            out.append(x)
        elif k == "plus" and not x.endswith("-or-later"):
            out.append(x + "+")
        elif k == "only" and roles.suffixable(x):
            out.append(x + "-only")
        elif k == "orlater" and roles.suffixable(x):
            out.append(x + "-or-later")
        elif k == "lower":
            out.append(x.lower())
        elif k == "upper":
            out.append(x.upper())
        elif k == "lowerplus" and not x.endswith("-or-later"):
            out.append(x.lower() + "+")
    return out


def natural_families(ctx):
    """listed ids grouped by shape (python mirror of Versions.tla, used only to CHOOSE texts; the oracle is the model's)"""
    import re
    ver = re.compile(r"^\d+(\.\d+)*[a-z]?$")
    fams = {}
    for x in ctx.tables["active"] + ctx.tables["deprecated"]:
        if x.endswith("+"):
            continue
        b = x
        for sfx in ("-or-later", "-only"):
            if b.endswith(sfx):
                b = b[: -len(sfx)]
        if b.endswith("-only"):
            b = b[:-5]
        cs = b.split("-")
        vi = [i for i, c in enumerate(cs) if ver.match(c)]
        if len(vi) != 1:
            continue
        key = tuple("*" if i == vi[0] else c for i, c in enumerate(cs))
        fams.setdefault(key, []).append(x)
    return {k: v for k, v in fams.items() if len({y for y in v}) >= 2}


def pair_params(ctx, rng, quick, with_cross=True):
    roles = Roles(ctx, rng)
    t = ctx.tables
    ids = [x for x in t["active"] + t["deprecated"] if not x.endswith("+")]
    excs = rng.sample(t["exceptions"], 2)
    texts, blocks = [], []

    def block(ta, tb):
        a0 = len(texts) + 1
        texts.extend(ta)
        a1 = len(texts)
        if tb is ta:
            blocks.append((a0, a1, a0, a1))
        else:
            b0 = len(texts) + 1
            texts.extend(tb)
            blocks.append((a0, a1, b0, len(texts)))

    # (b) every table family and every natural family: full product of members x spellings x exceptions
    fams = [[x for st in fam for x in st if x in ids] for fam in t["ranges"]]
    fams += [v for v in natural_families(ctx).values()]
    kinds = ["plain", "plus", "only", "orlater", "lowerplus"] if quick else ["plain", "plus", "only", "orlater", "lower", "upper", "lowerplus"]
    seen = set()
    for fam in fams:
        key = tuple(sorted(set(fam)))
        if key in seen:
            continue
        seen.add(key)
        if quick and len(key) > 12:
            key = tuple(rng.sample(key, 12))
        base = [s for x in key for s in spellings(roles, x, kinds)]
        tx = list(base)
        tx += [s + " WITH " + excs[0] for s in (base if not quick else base[::2])]
        if not quick:
            tx += [s + " WITH " + excs[1] for s in base[::3]]
        block(tx, tx)
    # (a) cross pairs: plain x plain and plus x plus
    if with_cross:
        pick = ids if not quick else rng.sample(ids, 110)
        p = [x for x in pick]
        block(p, p)
        pp = [x + "+" for x in pick if not x.endswith("-or-later")]
        block(pp, pp)
    # (c) refs against everything sampled
    refs = ["LicenseRef-a", "LicenseRef-A", "LicenseRef-b", "DocumentRef-d:LicenseRef-a", "DocumentRef-e:LicenseRef-a", "DocumentRef-d:LicenseRef-b"]
    some = rng.sample(ids, 12) + [x + "+" for x in rng.sample([y for y in ids if not y.endswith("-or-later")], 6)]
    both = refs + some + [some[0] + " WITH " + excs[0]]
    block(both, both)
    # (d) the exception in other letter cases (listed exception ids are matched case-insensitively, like license ids)
    more = list(dict.fromkeys(excs + rng.sample(t["exceptions"], 3)))
    lic = [some[0], some[1].lower(), some[12]] if len(some) > 12 else some[:3]
    cased = [x + " WITH " + v for x in lic for e in more for v in dict.fromkeys([e, e.lower(), e.upper()])]
    block(cased, cased)
    return texts, blocks


def run_pairs(ctx, name, rng, quick, with_cross=True):
    texts, blocks = pair_params(ctx, rng, quick, with_cross)
    ids = [x for x in ctx.tables["active"] if not x.endswith("-only") and not x.endswith("-or-later")]
    ctx.write_params("MC_Pairs_P", {"TextsA": tla_seq(texts), "TextsB": "TextsA",
                                    "Blocks": "<<" + ", ".join("<<%d, %d, %d, %d>>" % b for b in blocks) + ">>",
                                    "First": Q(min(ids)), "Last": Q(max(ids)), "PairExc": Q(rng.choice(ctx.tables["exceptions"]))})   # byte-order extremes: allowed lists are sorted that way
    npairs = sum((b[1] - b[0] + 1) * (b[3] - b[2] + 1) for b in blocks)
    ctx.notes.append("%s: %d texts, %d blocks, %d ordered pairs" % (name, len(texts), len(blocks), npairs))
    r = ctx.run_tlc(name, "MC_Pairs", "MC_Pairs", timeout=3000, extra=["-continue"])
    if r["summary"]["byKind"].get("pair:table", 0) != npairs:
        raise Infra("%s: %d pairs planned, %s replayed" % (name, npairs, r["summary"]["byKind"].get("pair:table")))
    return r


def run_tlaps(ctx, name, module):
    """discharge the proof obligations of a TLAPS module (an unbounded complement to the bounded TLC runs)"""
    import time as _t
    t0 = _t.time()
    d = os.path.join(ctx.scratch, "tlaps")
    os.makedirs(d, exist_ok=True)
    shutil.copy(os.path.join(ctx.spec, module + ".tla"), d)
    try:
        p = subprocess.run(["tlapm", "--threads", str(min(NCPU, 8)), module + ".tla"], cwd=d, capture_output=True, text=True, timeout=600)
    except (OSError, subprocess.TimeoutExpired) as e:
        ctx.notes.append("%s: tlapm not run (%s)" % (name, e))
        return
    out = p.stdout + p.stderr
    import re as _re
    m = _re.search(r"All (\d+) obligations? proved", out)
    if not m:
        raise Infra("%s: TLAPS did not prove %s:\n%s" % (name, module, out[-2000:]))
    ctx.stages.append({"stage": name, "kind": "TLAPS proof (unbounded: arbitrary family table)", "module": module,
                       "obligations_proved": int(m.group(1)), "wall_s": round(_t.time() - t0, 1)})
    log("[%s] %s: all %s proof obligations discharged by tlapm" % (ctx.prop, name, m.group(1)))


def perturbed_table(ctx, rng, ranges=False):
    """C02 / C11 quantify over 'whatever family table the tree ships' and 'any future hand edit': the pair checks again on a
    PERTURBED table - a scratch copy of the tree whose range table additionally covers natural families it does not cover
    today (well-formed by construction: natural version order, one version per step)."""
    import re
    t = ctx.tables
    covered = {x for f in t["ranges"] for st in f for x in st}
    def vkey(x):
        cs = x.split("-")
        v = next(c for c in cs if re.match(r"^\d+(\.\d+)*[a-z]?$", c))
        m = re.match(r"^([\d.]+)([a-z]?)$", v)
        return [int(p) for p in m.group(1).split(".")], m.group(2)
    fams = []
    for key, ids in sorted(natural_families(ctx).items()):
        ids = sorted(set(ids))
        if any(x in covered or x.endswith("-only") or x.endswith("-or-later") for x in ids):
            continue
        if len({tuple(vkey(x)[0]) + (vkey(x)[1],) for x in ids}) != len(ids):
            continue
        fams.append(sorted(ids, key=vkey))
    if not fams:
        return
    pick = rng.sample(fams, min(len(fams), 14))
    g = os.path.join(ctx.scratch, "perturbed-table")
    shutil.copytree(ctx.repo, g, ignore=shutil.ignore_patterns(".git"))
    path = os.path.join(g, "spdxexp", "spdxlicenses", "license_ranges.go")
    with open(path) as fh:
        src = fh.read()
    lit = "".join("\t\t{\n" + "".join('\t\t\t{\n\t\t\t\t"%s",\n\t\t\t},\n' % x for x in fam) + "\t\t},\n" for fam in pick)
    tail = "\t}\n}\n"
    if not src.endswith(tail):
        raise Infra("license_ranges.go does not end as expected; cannot build the perturbed table")
    with open(path, "w") as fh:
        fh.write(src[: -len(tail)] + lit + tail)
    sub = Ctx(ctx.prop, ctx.tier, ctx.seed, repo=g)
    sub.build()
    sub.export()
    if ranges:
        sub.run_tlc("ranges-perturbed", "MC_Ranges", "MC_Ranges", workers=4, timeout=1200)
    run_pairs(sub, "pairs-perturbed", rng, quick=True, with_cross=False)
    for m in sub.mismatches:
        m["source"] = "perturbed table (+%d natural families, e.g. %s): %s" % (len(pick), pick[0], m.get("source"))
    ctx.mismatches.extend(sub.mismatches)
    ctx.states += sub.states
    ctx.transitions += sub.transitions
    ctx.replayed += sub.replayed
    ctx.nontrivial += sub.nontrivial
    ctx.stages.extend(sub.stages)
    ctx.notes.append("perturbed table: added %s" % pick)
    shutil.rmtree(g, True)


def c02(ctx):
    rng = random.Random(ctx.seed)
    run_tlaps(ctx, "matchsym-proof", "MatchSym")
    r = run_pairs(ctx, "pairs", rng, quick=ctx.tier != "thorough")
    perturbed_table(ctx, rng)
    ctx.drive("trace", "single", 1500 if ctx.tier == "thorough" else 400)
    ctx.validate_trace("trace")
    viol = sorted(set(__import__("re").findall(r"Invariant (\w+) is violated", r["log"])))
    if viol:
        ctx.notes.append("model-level invariants violated on the shipped tables: %s" % viol)
        if set(viol) - {"PlusNatural"} and not [m for m in ctx.mismatches if m["what"] in ("match", "verdict")]:
            raise Infra("model-level invariants %s failed but the real code agrees with the model's predictions" % viol)
    sessions(ctx)
    large_inputs(ctx)
    repetitions(ctx)
    return finish(ctx, relevant={"match", "verdict"},
                  rule="ordered pairs of single-term texts built from the shipped tables (every table family and natural family x spellings x "
                       "exceptions, cross pairs of listed ids, LicenseRefs); TLC: operational matcher = C02's rule, symmetry, reflexivity, "
                       "license/ref separation; each pair replayed as Satisfies(a, [b]); non-trivial = the model predicts a match")


def c11(ctx):
    rng = random.Random(ctx.seed)
    ctx.run_tlc("ranges", "MC_Ranges", "MC_Ranges", workers=4, timeout=1200)
    nf = len(ctx.tables["ranges"])
    r = run_pairs(ctx, "pairs", rng, quick=ctx.tier != "thorough")
    perturbed_table(ctx, rng, ranges=True)
    ctx.drive("trace", "single", 1200 if ctx.tier == "thorough" else 300)
    ctx.validate_trace("trace")
    sessions(ctx)
    large_inputs(ctx)
    repetitions(ctx)
    return finish(ctx, relevant={"plus-natural-order", "plus-natural-order-duplicate-position", "match-duplicate-position",
                                 "verdict-duplicate-position", "verdict", "match", "table-Listed", "table-OnePosition", "table-OneShape",
                                 "table-Ascending", "table-Complete", "table-Disjoint"},
                  rule="the shipped family table (one TLC state per family, six well-formedness clauses) + ordered pairs of ids/spellings of "
                       "every table family and natural family and cross-family pairs, expected answer from the NATURAL version order; each "
                       "pair replayed as Satisfies(a, [b]); non-trivial = a match is expected",
                  extra_cov={"families_in_table": nf})


# --------------------------------------------------------------------------- C08
def related_texts(ctx, roles, rng, x, quick):
    """texts to confront id x with: its table/natural family members with and without '+', itself, two unrelated ids"""
    t = ctx.tables
    base = x
    for sfx in ("-or-later", "-only"):
        if base.endswith(sfx):
            base = base[: -len(sfx)]
    fam = set()
    for f in t["ranges"]:
        ids = [y for st in f for y in st]
        if base in ids or x in ids:
            fam.update(y for y in ids if not y.endswith("-or-later"))
    for v in ctx.natfams.values():
        if x in v or base in v:
            fam.update(v)
    fam = sorted(fam)
    if quick and len(fam) > 5:
        fam = rng.sample(fam, 5)
    out = [x]
    for y in fam:
        out.append(y)
        out.append(y + "+")
    out += rng.sample(roles.unranged, 2)
    seen, res = set(), []
    for y in out:
        if y not in seen:
            seen.add(y)
            res.append(y)
    return res


def c08(ctx):
    rng = random.Random(ctx.seed)
    roles = Roles(ctx, rng)
    ctx.natfams = natural_families(ctx)
    t = ctx.tables
    quick = ctx.tier != "thorough"
    ids = [x for x in t["active"] + t["deprecated"] if not x.endswith("+")]
    if quick:
        # every id that is in some table or natural family + a seeded sample of the rest
        infam = {y for f in t["ranges"] for st in f for y in st} | {y for v in ctx.natfams.values() for y in v}
        rest = [x for x in ids if x not in infam]
        ids = [x for x in ids if x in infam][:: 2 if ctx.seed % 2 else 1][:140] + rng.sample(rest, 40)
        # always keep the -only/-or-later twins' bases of the GNU families
        ids += [x for x in t["deprecated"] if not x.endswith("+") and x not in ids]
    rel = [related_texts(ctx, roles, rng, x, quick) for x in ids]
    e1, e2 = rng.sample(t["exceptions"], 2)
    gnu = [x for x in t["active"] if x.endswith("-or-later")]
    ctx.write_params("MC_Spell_P", {"Ids": tla_seq(ids), "Related": "<<" + ", ".join(tla_seq(r) for r in rel) + ">>",
                                    "Exc1": Q(e1), "Exc2": Q(e2), "Plain": Q(rng.choice(roles.unranged)),
                                    "Gnu": Q(rng.choice(gnu) if gnu else rng.choice(roles.unranged) + "-or-later"),
                                    "Last": Q(max(roles.unranged))})
    ctx.notes.append("spell: %d ids, %d (id, related) states" % (len(ids), sum(len(r) for r in rel)))
    r = ctx.run_tlc("spell", "MC_Spell", "MC_Spell", timeout=3000, extra=["-continue"])
    import re as _re
    viol = sorted(set(_re.findall(r"Invariant (\w+) is violated", r["log"])))
    if viol:
        ctx.notes.append("model-level invariants violated on the shipped tables: %s" % viol)
    ctx.drive("trace", "spell", 1200 if not quick else 300)
    ctx.validate_trace("trace")
    rel_whats = {"not-interchangeable", "validity", "verdict"}
    if viol and not [m for m in ctx.mismatches if m["what"] in rel_whats]:
        raise Infra("model-level invariants %s failed but no disagreement was reproduced on the real code" % viol)
    sessions(ctx)
    large_inputs(ctx)
    repetitions(ctx)
    return finish(ctx, relevant=rel_whats,
                  rule="listed ids x {X ~ X-only, X+ ~ X-or-later} x contexts (expression side / allowed side against family members with and "
                       "without '+', none/same/other exception, six syntactic contexts); TLC: the model predicts identical results for both "
                       "spellings; real code: both calls of every context must agree with each other and with the model; non-trivial = satisfied")


# --------------------------------------------------------------------------- C09
def c09(ctx):
    rng = random.Random(ctx.seed)
    roles = Roles(ctx, rng)
    t = ctx.tables
    quick = ctx.tier != "thorough"
    lic = [x for x in t["active"] + t["deprecated"] if not x.endswith("+")]
    exc = list(t["exceptions"])
    if quick:
        ends = [t["active"][0], t["active"][-1], t["deprecated"][0], t["deprecated"][-1]]
        lic = list(dict.fromkeys([x for x in ends if not x.endswith("+")] + rng.sample(lic, 220)))
        exc = list(dict.fromkeys([t["exceptions"][0], t["exceptions"][-1]] + rng.sample(exc, 30)))
        longest = sorted(t["active"] + t["deprecated"], key=len)[-3:]
        lic = list(dict.fromkeys(lic + [x for x in longest if not x.endswith("+")]))
        exc = list(dict.fromkeys(exc + sorted(t["exceptions"], key=len)[-2:]))
    p1, p2 = rng.sample(roles.unranged, 2)
    if quick:
        # keep every listed -only / -or-later id and every family member in the sample
        keep = [x for x in t["active"] if x.endswith("-only") or x.endswith("-or-later")]
        lic = list(dict.fromkeys(keep + lic))

    def rel(x):
        base = x[:-9] if x.endswith("-or-later") else x
        if base in roles.pos and len(roles.pos[base]) == 1:
            f, st = roles.pos[base][0]
            others = [y for y in roles.pos if len(roles.pos[y]) == 1 and roles.pos[y][0][0] == f and roles.pos[y][0][1] != st
                      and not y.endswith("-or-later") and (y in t["active"] or y in t["deprecated"])]
            if others:
                y = rng.choice(others)
                # the side with the lower version carries the '+', so that the two match only through the range
                if roles.pos[y][0][1] > st:
                    return y if x.endswith("-or-later") else y      # x(-or-later / plain) vs later y: matches iff x has '+'
                return y + "+"
        return x
    ctx.write_params("MC_Case_P", {"LicIds": tla_seq(lic), "ExcIds": tla_seq(exc), "LicRel": tla_seq([rel(x) for x in lic]),
                                   "MixK": str(ctx.seed % 2), "P1": Q(p1), "P2": Q(p2)})
    extra_inv = ""
    ctx.write_cfg("MC_Case", invariants=["Emit", "CaseInv", "CaseSufInv"])   # Emit first: with -continue TLC skips later invariants of a violating state
    # FoldUnique is an assumption about the whole shipped lists: check it as an invariant of the initial state
    with open(os.path.join(ctx.spec, "MC_Case.cfg"), "a") as f:
        f.write("INVARIANT FoldUnique\n")
    r = ctx.run_tlc("case", "MC_Case", "MC_Case", timeout=3000, extra=["-continue"])
    import re as _re
    viol = sorted(set(_re.findall(r"Invariant (\w+) is violated", r["log"])))
    ctx.drive("trace", "case", 1200 if not quick else 300)
    ctx.validate_trace("trace")
    rel = {"not-interchangeable", "validity", "verdict", "extract", "extract-error", "extract-invented", "extract-missing", "extract-duplicate", "extract-roundtrip"}
    if viol:
        ctx.notes.append("model-level invariants violated on the shipped tables: %s" % viol)
        if not [m for m in ctx.mismatches if m["what"] in rel]:
            raise Infra("model-level invariants %s failed but no disagreement was reproduced on the real code" % viol)
    sessions(ctx)
    large_inputs(ctx)
    repetitions(ctx)
    return finish(ctx, relevant=rel,
                  rule="listed license and exception ids x {lower, upper, alternating} case x {alone, in a 3-term expression, as allowed entry, "
                       "after WITH}; TLC: the scanner model yields the same token for every variant, lists are fold-unique; real code: validity, "
                       "verdict equal to the list spelling's, ExtractLicenses reports list casing; non-trivial = satisfied")


# --------------------------------------------------------------------------- lexeme vocabulary (C03 C04 C05 C15)
def lex_vocab(ctx, rng, focus="all"):
    roles = Roles(ctx, rng)
    t = ctx.tables
    act = set(t["active"])
    plain, plain2, plain3 = rng.sample(roles.unranged, 3)
    dep_fold = [x for x in t["deprecated"] if not x.endswith("+") and x + "-or-later" in act]
    dep_plain = [x for x in t["deprecated"] if not x.endswith("+") and x + "-or-later" not in act and x + "-only" not in act]
    listed_only = [x for x in t["active"] if x.endswith("-only")]
    listed_later = [x for x in t["active"] if x.endswith("-or-later")]
    exc = rng.choice(t["exceptions"])
    low = {x.lower() for x in t["active"] + t["deprecated"] + t["exceptions"]}
    unknown = next(u for u in ["FOO", "Foo-1.0", "x.y", "NotALicense"] if u.lower() not in low)
    V = []

    def add(text, kd, c=None):
        V.append((text, kd, c if c is not None else text))

    add(plain, "plainL")
    if dep_fold:
        add(rng.choice(dep_fold), "depFold")
    add(plain2 + "-or-later", "unlistedLater", plain2)
    add(unknown, "unknown")
    if focus != "core":
        add("Unknown-" + "x1.y2-" * 9 + "z", "unknown")     # an unknown id of 63 bytes
        add("U" + "n0-" * 21, "unknown")                      # 64 bytes
        add("Q" + "w.9" * 10 + "z", "unknown")                # 32 bytes
    add("LicenseRef-a", "LR", "a")
    add("DocumentRef-d", "DR", "d")
    for o in [":", "(", ")", "AND", "OR", "WITH"]:
        add(o, "op")
    add("+", "plus")
    add(exc, "exc")
    add("LicenseRef-", "bareLR")
    add("#", "other")
    if focus == "all":
        if listed_only:
            add(rng.choice(listed_only), "listedOnly")
        if listed_later:
            add(rng.choice(listed_later), "listedLater")
        add(plain3 + "-only", "unlistedOnly", plain3)
        if dep_plain:
            add(rng.choice(dep_plain), "depPlain")
        add(plain.lower() if plain.lower() != plain else plain3.lower(), "lowerL", plain if plain.lower() != plain else plain3)
        add("and", "lowerop")
        add("DocumentRef-", "bareDR")
        # the documented suffixes are matched exactly: in another letter case they are part of an unknown id
        add(plain3 + "-ONLY", "unknown")
        add(plain2.lower() + "-Or-Later", "unknown")
        if listed_only:
            lo = rng.choice(listed_only)
            add(lo.upper(), "lowerL", lo)                # ... while a LISTED id that ends in -only is one id, in any case
    return V


def vocab_tla(V):
    return "<<" + ",\n  ".join('[t |-> %s, kd |-> %s, c |-> %s]' % (Q(a), Q(b), Q(c)) for a, b, c in V) + ">>"


def run_lex(ctx, name, rng, maxlex, seps, focus="all", prefixes=("",)):
    V = lex_vocab(ctx, rng, focus)
    ctx.write_params("MC_Lex_P", {"MaxLex": str(maxlex), "Seps": tla_seq(seps), "Vocab": vocab_tla(V), "Prefixes": tla_seq(prefixes)})
    ctx.notes.append("%s: %d lexemes %s, <=%d per text, separators %s" % (name, len(V), [v[0] for v in V], maxlex, seps))
    r = ctx.run_tlc(name, "MC_Lex", "MC_Lex", timeout=3000, reps=2 if ctx.tier == "thorough" else 1)
    if r["violated"]:
        raise Infra("model-level invariant %s failed in MC_Lex with Dev = {} (specification problem, not a verdict)" % r["violated"])
    want = r["distinct"] - (1 if "" in prefixes else 0)
    if r["summary"]["byKind"].get("str", 0) != want:
        raise Infra("%s: %d texts emitted, TLC found %d states" % (name, r["summary"]["byKind"].get("str", 0), r["distinct"]))
    return r


def offset_prefixes(ctx, rng):
    """lexically clean prefixes containing -or-later forms, '+', spaces and parentheses (C15's quantifier)"""
    roles = Roles(ctx, rng)
    t = ctx.tables
    p1, p2, p3 = rng.sample(roles.unranged, 3)
    A, B = p1 + "-or-later", p2 + "-or-later"
    act = set(t["active"])
    fold = [x for x in t["deprecated"] if not x.endswith("+") and x + "-or-later" in act]
    G = (rng.choice(fold) + "+") if fold else p3 + "+"
    E = rng.choice(t["exceptions"])
    return ["", A + " AND ", "(" + A + ") OR ", "(" + A + " AND ", A + " WITH " + E + " AND ", "  " + A + "  AND  ", G + " AND ",
            p3 + "+ OR (", A + " AND " + B + " OR ", A + " AND (" + B + ") AND ", "(" + A + " OR " + B + ") AND ", "(" + A + ")OR(",
            "DocumentRef-d:LicenseRef-a AND ", p3 + "-only AND ", A.lower() + " AND ", B + " OR " + A + " WITH ",
            A + " AND " + B + " AND " + p3 + "-or-later OR ", G + " OR " + G.lower() + " AND " + A + " OR "]


# --------------------------------------------------------------------------- C12
def run_generator(ctx):
    """run the real generator in a scratch copy (outside /repo and /verif); returns {file: bytes}"""
    g = os.path.join(ctx.scratch, "gen")
    os.makedirs(os.path.join(g, "spdxexp", "spdxlicenses"))
    shutil.copytree(os.path.join(REPO, "cmd"), os.path.join(g, "cmd"))
    for f in ("go.mod", "go.sum"):
        shutil.copy(os.path.join(REPO, f), g)
    p = subprocess.run(["go", "run", ".", "extract", "-l", "-e"], cwd=os.path.join(g, "cmd"), env=GOENV, capture_output=True, text=True, timeout=600)
    if p.returncode != 0:
        raise Infra("generator run failed: " + p.stdout[-1500:] + p.stderr[-1500:])
    out = {}
    for f in ("get_licenses.go", "get_deprecated.go", "get_exceptions.go"):
        path = os.path.join(g, "spdxexp", "spdxlicenses", f)
        out[f] = open(path, "rb").read() if os.path.exists(path) else None
    shutil.rmtree(g, True)
    return out


def perturbed_configuration(ctx):
    """C12 quantifies over 'any future refresh or hand edit': the same obligations on a PERTURBED configuration - a scratch copy of
    the tree whose JSON is re-ordered (entries moved to the end, a block reversed), regenerated with the tree's own generator."""
    rng = random.Random(ctx.seed * 31 + 7)
    g = os.path.join(ctx.scratch, "perturbed")
    shutil.copytree(ctx.repo, g, ignore=shutil.ignore_patterns(".git"))
    moved = {}
    for fname, key in (("licenses.json", "licenses"), ("exceptions.json", "exceptions")):
        path = os.path.join(g, "cmd", fname)
        with open(path) as fh:
            data = json.load(fh)
        items = data[key]
        idk = "licenseId" if key == "licenses" else "licenseExceptionId"
        live = [i for i, x in enumerate(items) if not x.get("isDeprecatedLicenseId")]
        picks = sorted(rng.sample(live, 3), reverse=True)
        tail = [items.pop(i) for i in picks]
        lo = rng.randrange(0, len(items) - 30)
        items[lo:lo + 25] = reversed(items[lo:lo + 25])
        items.extend(tail)
        # ... and entries a future refresh might bring: new ids at the end and in the middle, one of them deprecated
        proto = dict(tail[0])
        new = []
        for nid, dep, at in (("Zzz-Future-1.0", False, len(items)), ("AAA-Future-2.0", False, 0), ("Mid-Future-0.9", key == "licenses", len(items) // 2)):
            ent = dict(proto)
            ent[idk] = nid if key == "licenses" else nid + "-exception"
            ent["isDeprecatedLicenseId"] = dep
            items.insert(at, ent)
            new.append(ent[idk])
        # ... and an entry WITHOUT the deprecation flag, directly after a deprecated entry (= not deprecated)
        deps = [i for i, x in enumerate(items) if x.get("isDeprecatedLicenseId")]
        if deps:
            ent = {k: v for k, v in proto.items() if k != "isDeprecatedLicenseId"}
            ent[idk] = "NoFlag-Future-3.1" if key == "licenses" else "NoFlag-Future-exception"
            items.insert(rng.choice(deps) + 1, ent)
            new.append(ent[idk])
        moved[key] = [x[idk] for x in tail] + new
        with open(path, "w") as fh:
            json.dump(data, fh)
    p = subprocess.run(["go", "run", ".", "extract", "-l", "-e"], cwd=os.path.join(g, "cmd"), env=GOENV, capture_output=True, text=True, timeout=600)
    if p.returncode != 0:
        raise Infra("generator run on the perturbed configuration failed: " + p.stdout[-1000:] + p.stderr[-1000:])
    sub = Ctx(ctx.prop, ctx.tier, ctx.seed, repo=g)
    sub.build()
    sub.export()
    for f in ("licenses.json", "exceptions.json"):
        shutil.copy(os.path.join(g, "cmd", f), sub.spec)
    files = {}
    for key, f in (("licenses", "get_licenses.go"), ("deprecated", "get_deprecated.go"), ("exceptions", "get_exceptions.go")):
        with open(os.path.join(g, "spdxexp", "spdxlicenses", f), encoding="utf-8", errors="replace") as fh:
            files[key] = fh.read().split("\n")
    with open(os.path.join(sub.spec, "genfiles.json"), "w") as fh:
        json.dump(files, fh)
    pp = pick_plain(sub)
    with open(os.path.join(sub.spec, "MC_Gen.tla")) as fh:
        src = fh.read()
    with open(os.path.join(sub.spec, "MC_Gen.tla"), "w") as fh:
        fh.write(src.replace('P == "MIT"', 'P == %s' % Q(pp)))
    r = sub.run_tlc("gen-perturbed", "MC_Gen", "MC_Gen", workers=4, timeout=1800, extra=["-continue"])
    for m in sub.mismatches:
        m["source"] = "perturbed configuration (%s moved to the end, a block reversed): %s" % (moved, m.get("source"))
        m["what"] = m["what"] if m["what"].startswith("table-") else m["what"]
    ctx.mismatches.extend(sub.mismatches)
    ctx.states += sub.states
    ctx.transitions += sub.transitions
    ctx.replayed += sub.replayed
    ctx.stages.extend(sub.stages)
    ctx.notes.append("perturbed configuration: %s" % moved)
    shutil.rmtree(g, True)


def c12(ctx):
    sl = os.path.join(REPO, "spdxexp", "spdxlicenses")
    files = {}
    for key, f in (("licenses", "get_licenses.go"), ("deprecated", "get_deprecated.go"), ("exceptions", "get_exceptions.go")):
        with open(os.path.join(sl, f), encoding="utf-8", errors="replace") as fh:
            files[key] = fh.read().split("\n")
    with open(os.path.join(ctx.spec, "genfiles.json"), "w") as fh:
        json.dump(files, fh)
    for f in ("licenses.json", "exceptions.json"):
        shutil.copy(os.path.join(REPO, "cmd", f), ctx.spec)
    p = pick_plain(ctx)
    with open(os.path.join(ctx.spec, "MC_Gen.tla")) as fh:
        src = fh.read()
    with open(os.path.join(ctx.spec, "MC_Gen.tla"), "w") as fh:
        fh.write(src.replace('P == "MIT"', 'P == %s' % Q(p)))
    r = ctx.run_tlc("gen", "MC_Gen", "MC_Gen", workers=4, timeout=1800, extra=["-continue"])
    import re as _re
    viol = sorted(set(_re.findall(r"Invariant (\w+) is violated", r["log"])))
    nids = len(ctx.tables["active"]) + len(ctx.tables["deprecated"]) + len(ctx.tables["exceptions"])
    if r["distinct"] != nids + 1:
        raise Infra("gen: %d ids, TLC found %d states" % (nids, r["distinct"]))
    # the real generator must reproduce the committed files byte for byte
    produced = run_generator(ctx)
    for f, b in produced.items():
        committed = open(os.path.join(sl, f), "rb").read()
        ctx.replayed += 1
        if b != committed:
            ctx.mismatches.append({"what": "generator-output-differs", "fn": "cmd (go run . extract -l -e)", "expr": f, "list": [f],
                                   "expected": "byte-identical to the committed spdxexp/spdxlicenses/" + f,
                                   "observed": {"produced_bytes": None if b is None else len(b), "committed_bytes": len(committed)},
                                   "source": "generator run"})
    ctx.stages.append({"stage": "generator", "kind": "real generator run in a scratch copy, bytes compared", "files": sorted(produced)})
    perturbed_configuration(ctx)
    rel = {"table-ActiveFromJson", "table-DeprecatedFromJson", "table-ExceptionsFromJson", "table-FilesFromGen", "table-Disjoint",
           "table-FoldUnique", "generator-output-differs", "validity", "validity-disagreement", "invalid-allowed-entry-accepted",
           "allowed-entry", "verdict"}
    if viol and not [m for m in ctx.mismatches if m["what"] in rel]:
        raise Infra("model-level invariant %s failed but nothing was reproduced on real data" % viol)
    sessions(ctx)
    large_inputs(ctx)
    repetitions(ctx)
    return finish(ctx, relevant=rel,
                  rule="one TLC state per listed id (the lists read through the real package) + six whole-list clauses against cmd/*.json "
                       "read by TLC and Gen.tla's rendering of the three files; the real generator is run and its bytes compared; every id is "
                       "validated through all entry points (license ids valid alone; exception ids valid after WITH only); non-trivial = valid",
                  extra_cov={"listed_ids": nids})


# --------------------------------------------------------------------------- C13
def conc_workloads(ctx, rng, thorough):
    roles = Roles(ctx, rng)
    texts, universe, _ = roles.tree_roles()
    p1, p2 = rng.sample(roles.unranged, 2)
    allowed = [universe[0], universe[1], p1]
    licenses = [texts[0], "FOO-bar", texts[1] + " AND"]
    e1 = texts[0] + " OR (" + texts[1] + " AND " + p1 + ")"
    e2 = p1 + " AND " + texts[2]
    mem = {"allowed": allowed, "licenses": licenses, "mixed": [p1, p1 + " AND " + p2], "two": [texts[0], "("]}
    W = [
        [("Satisfies", e1, "allowed"), ("ValidateLicenses", "", "licenses")],
        [("Satisfies", e1, "allowed"), ("Satisfies", e2, "allowed")],
        [("ExtractLicenses", e1, ""), ("Satisfies", e2, "allowed")],
    ]
    if thorough:
        W.append([("ExtractLicenses", e1, ""), ("ValidateLicenses", "", "two"), ("Satisfies", e2, "mixed")])
        W.append([("Satisfies", e1 + " OR", "allowed"), ("ExtractLicenses", e2, ""), ("ValidateLicenses", "", "licenses")])
    return mem, W


def c13(ctx):
    rng = random.Random(ctx.seed)
    thorough = ctx.tier == "thorough"
    mem, W = conc_workloads(ctx, rng, thorough)
    memtla = "[" + ", ".join("%s |-> %s" % (k, tla_seq(v)) for k, v in mem.items()) + "]"
    for i, w in enumerate(W):
        calls = "<<" + ", ".join('[fn |-> %s, e |-> %s, arg |-> %s]' % (Q(f), Q(e), Q(a)) for f, e, a in w) + ">>"
        ctx.write_params("SpdxConc_P", {"Mem": memtla, "Calls": calls})
        cpath = os.path.join(ctx.scratch, "calls%d.json" % i)
        with open(cpath, "w") as fh:
            json.dump({"mem": mem, "calls": [{"fn": f, "e": e, "arg": a} for f, e, a in w]}, fh)
        r = ctx.run_tlc("conc%d" % i, "SpdxConc", "SpdxConc", timeout=3000, replay_args=["-calls", cpath])
        if r["violated"]:
            raise Infra("model-level invariant %s failed in SpdxConc with Dev = {} (specification problem)" % r["violated"])
        if r["summary"]["byKind"].get("sched", 0) == 0:
            raise Infra("no schedule was emitted")
        ctx.notes.append("conc%d: %s; %d schedules replayed through the gating hooks" % (i, w, r["summary"]["byKind"].get("sched", 0)))
    # histories: repeats, shuffled and reversed order; first-occurrence events are trace-validated
    tpath = os.path.join(ctx.spec, "trace.ndjson")
    je, jp = journal_env(ctx)
    hp = subprocess.run([ctx.harness, "conc", "hist", "-seed", str(ctx.seed), "-n", str(3000 if thorough else 600), "-trace", tpath],
                        capture_output=True, text=True, timeout=1200, env=je)
    after_harness(ctx, "histories", hp.returncode, hp.stderr, jp)
    if hp.returncode != 0:
        raise Infra("conc hist failed: " + hp.stderr[-2000:])
    hs = json.loads(hp.stdout)
    ctx.replayed += hs["calls"]
    ctx.nontrivial += hs["distinctCalls"]
    for d in hs.get("diffs") or []:
        ctx.mismatches.append({"what": "result-depends-on-history", "fn": d["fn"], "expr": d["expr"], "list": d.get("list"),
                               "expected": d["first"], "observed": d["later"], "source": "history:" + d["pass"]})
    if hs.get("mutatedCalls"):
        ctx.mismatches.append({"what": "argument-mutated", "fn": "history", "expr": "", "list": [], "expected": "arguments untouched",
                               "observed": hs["mutatedCalls"], "source": "history"})
    if hs.get("outBytes"):
        ctx.mismatches.append({"what": "wrote-to-stdout", "fn": "history", "expr": "", "list": [], "expected": "0 bytes on stdout/stderr",
                               "observed": hs["outBytes"], "source": "history"})
    ctx.stages.append({"stage": "histories", "kind": "call histories with repeats in given/shuffled/reversed order", **{k: hs[k] for k in ("calls", "distinctCalls", "outBytes")}})
    ctx.validate_trace("hist-trace")
    # the same workload in three FRESH processes, one order each: state kept inside a process cannot hide an order dependence
    dumps = {}
    for order in ("given", "reversed", "shuffled"):
        dp = os.path.join(ctx.scratch, "hist-%s.json" % order)
        je, jp = journal_env(ctx)
        p2 = subprocess.run([ctx.harness, "conc", "hist", "-seed", str(ctx.seed), "-n", str(3000 if thorough else 600), "-order", order, "-dump", dp],
                            capture_output=True, text=True, timeout=1200, env=je)
        after_harness(ctx, "histories (fresh process, %s order)" % order, p2.returncode, p2.stderr, jp)
        if p2.returncode != 0:
            raise Infra("conc hist -order %s failed: %s" % (order, p2.stderr[-1500:]))
        with open(dp) as fh:
            dumps[order] = json.load(fh)
        ctx.replayed += json.loads(p2.stdout)["calls"]
    ref = dumps["given"]
    crossdiff = 0
    for order in ("reversed", "shuffled"):
        for k, o in dumps[order]["results"].items():
            if k in ref["results"] and ref["results"][k] != o:
                c = ref["calls"][int(k)]
                crossdiff += 1
                ctx.mismatches.append({"what": "result-depends-on-history", "fn": c["fn"], "expr": c["e"], "list": c["a"],
                                       "expected": ref["results"][k], "observed": o, "source": "history: fresh process, %s order vs given order" % order})
    ctx.stages.append({"stage": "histories-fresh-processes", "kind": "one order per fresh process, results of equal calls compared across processes",
                       "distinct_calls": len(ref["calls"]), "differences": crossdiff})
    # free-running concurrency under the race detector
    race = ctx.build(race=True)
    # several FRESH processes: lazily initialised package state is built under contention once per process, so every process
    # is one more chance for an initialisation race to be observed
    racy, ss, race_err = False, None, ""
    nproc = 8 if thorough else 4
    for k in range(nproc):
        je, jp = journal_env(ctx, dict(os.environ, GORACE="halt_on_error=0"))
        sp = subprocess.run([race, "conc", "stress", "-seed", str(ctx.seed * 100 + k), "-n", str(1500 if thorough else 200),
                             "-goroutines", str(64 if thorough else 24)], capture_output=True, text=True, timeout=2400, env=je)
        this_racy = "DATA RACE" in sp.stderr or "fatal error: concurrent map" in sp.stderr
        after_harness(ctx, "race-stress", None if this_racy else sp.returncode, sp.stderr, jp)
        try:
            one = json.loads(sp.stdout)
        except ValueError:
            one = None
        if this_racy and not racy:
            racy, race_err = True, sp.stderr[:3000]
        if one is None and not this_racy:
            raise Infra("race stress run failed (rc=%d): %s" % (sp.returncode, sp.stderr[-2000:]))
        if one is not None:
            if ss is None:
                ss = one
            else:
                ss["calls"] += one["calls"]
                ss["diffs"] = (ss.get("diffs") or []) + (one.get("diffs") or [])
                ss["mutated"] = ss.get("mutated") or one.get("mutated")
                ss["outBytes"] = ss.get("outBytes", 0) + one.get("outBytes", 0)
    if racy:
        ctx.mismatches.append({"what": "data-race", "fn": "concurrent workload", "expr": "", "list": [], "expected": "no report from the Go race detector",
                               "observed": race_err, "source": "race-stress"})
    if ss:
        ctx.replayed += ss["calls"]
        for d in ss.get("diffs") or []:
            ctx.mismatches.append({"what": "result-depends-on-schedule", "fn": d["call"], "expr": d["expr"], "list": d.get("list"),
                                   "expected": d["sequential"], "observed": d["concurrent"], "source": "race-stress"})
        if ss.get("mutated"):
            ctx.mismatches.append({"what": "argument-mutated", "fn": "concurrent workload", "expr": "", "list": [], "expected": "arguments untouched",
                                   "observed": "shared slices changed", "source": "race-stress"})
        if ss.get("outBytes"):
            ctx.mismatches.append({"what": "wrote-to-stdout", "fn": "concurrent workload", "expr": "", "list": [], "expected": "0 bytes",
                                   "observed": ss["outBytes"], "source": "race-stress"})
        ctx.stages.append({"stage": "race-stress", "kind": "free-running goroutines over shared slices, harness built with -race",
                           "calls": ss["calls"], "goroutines": ss["goroutines"], "fresh_processes": nproc, "race_reported": racy})
    ctx.assumptions.append("gated schedules interleave at stage-hook granularity only; data races are left to the Go race detector on the free-running run")
    # sessions: an event the specification rejects is a PURITY violation iff the same call, alone in a fresh process, answers differently
    rejected = sessions(ctx)
    seen_calls = set()
    for m in rejected:
        if m["what"] in ("panic", "mutated", "stage-sequence") or m["fn"] not in ("Satisfies", "ExtractLicenses", "ValidateLicenses"):
            continue
        key = json.dumps([m["fn"], m["expr"], m["list"], m.get("rawhex")])
        if key in seen_calls or len(seen_calls) >= 40:
            continue
        seen_calls.add(key)
        rp = os.path.join(ctx.scratch, "fresh-call.json")
        with open(rp, "w") as fh:
            json.dump({"property": ctx.prop, "what": m["what"], "fn": m["fn"], "expr": m["expr"], "list": m["list"], "rawhex": m.get("rawhex") or []}, fh)
        p3 = subprocess.run([ctx.harness, "run1", "-event", rp, os.path.join(ctx.scratch, "fresh-trace.ndjson")], capture_output=True, text=True, timeout=120)
        try:
            fresh = json.loads(p3.stdout.split("observed now:", 1)[1])
        except (IndexError, ValueError):
            continue
        keys = ("sat", "err", "off", "lex", "ok", "bad", "out", "outnil", "panic")
        if any(fresh.get(k) != m["observed"].get(k) for k in keys):
            ctx.mismatches.append({"what": "result-depends-on-history", "fn": m["fn"], "expr": m["expr"], "list": m["list"],
                                   "expected": {k: fresh.get(k) for k in keys}, "observed": m["observed"],
                                   "source": "sessions: in-session result vs the same call alone in a fresh process"})
    large_inputs(ctx)
    repetitions(ctx)
    return finish(ctx, relevant={"argument-mutated", "mutated", "result-depends-on-schedule", "result-depends-on-history", "data-race",
                                 "wrote-to-stdout", "hang"},
                  rule="TLC enumerates every interleaving of the stage steps of 2-3 concurrent calls sharing argument slices; each complete "
                       "schedule is replayed on the real code through blocking hooks, comparing the shared slices after every step and each "
                       "result with the sequential one; call histories with repeats in three orders; a -race build runs the free workload; "
                       "non-trivial = every schedule / distinct call")


# --------------------------------------------------------------------------- C14
MiB = 1 << 20


def measure(ctx, fn, e, a, tries=1, history=0):
    path = os.path.join(ctx.scratch, "call.json")
    with open(path, "w") as fh:
        json.dump({"fn": fn, "e": e, "a": a}, fh)
    best = None
    for _ in range(tries):
        p = subprocess.run([ctx.harness, "measure", "-in", path, "-history", str(history), "-max-time", "60s" if history else "10s"], capture_output=True, text=True, timeout=300,
                           env=dict(os.environ, GOGC="100"))
        try:
            r = json.loads(p.stdout.strip().splitlines()[-1])
        except (ValueError, IndexError):
            if looks_fatal(p.returncode, p.stderr):
                # one call per process: the call killed it (stack overflow / out of memory) - no budget is met by a call that never returns
                line = next((l for l in p.stderr.splitlines() if "fatal error:" in l or "runtime:" in l), "process died rc=%d" % p.returncode)
                return {"alloc": 0, "ns": 0, "aborted": "crash: " + line}
            raise Infra("measure failed (rc=%d): %s" % (p.returncode, p.stderr[-1000:]))
        if best is None or r["ns"] < best["ns"]:
            best = r
        if r["aborted"] or r["ns"] < 1e9:
            break       # (only a completed run slower than the 1 s budget is repeated: wall time is noisy, an abort at 10 s is not)
    return best


def c14(ctx):
    thorough = ctx.tier == "thorough"
    sizes = [2, 4, 8, 16, 32, 64, 128, 256] + ([512, 1024] if thorough else [])
    ctx.write_params("MC_Cost_P", {"SmallN": "{1, 2, 3, 4, 5, 6, 7, 8}", "Sizes": "<<" + ", ".join(map(str, sizes)) + ">>",
                                   "SizesExp": "<<2, 4, 6, 8, 10, 12, 14, 16, 18>>", "Degree": "3"})
    r = ctx.run_tlc("cost", "MC_Cost", "MC_Cost", workers=4, timeout=1800)
    if r["violated"]:
        raise Infra("model-level invariant %s failed in MC_Cost (the cost laws do not describe the model's own expansion)" % r["violated"])
    costs = r["summary"].get("costs") or []
    fams = {}
    for c in costs:
        fams.setdefault(c["family"], []).append(c)
    # families without an expansion law: long allowed lists, long identifiers (built here; no tree involved)
    extra = {"LongAllowed": [], "LongUnknownId": [], "LongRefName": [], "LongBlankRun": []}
    for n in sizes + ([2048, 4096] if thorough else [512]):
        extra["LongAllowed"].append({"family": "LongAllowed", "n": n, "e": "LicenseRef-1", "a": ["LicenseRef-%d" % k for k in range(1, n + 1)]})
        extra["LongUnknownId"].append({"family": "LongUnknownId", "n": n, "e": "x" * n})
        extra["LongRefName"].append({"family": "LongRefName", "n": n, "e": "LicenseRef-" + "a" * n})
        extra["LongBlankRun"].append({"family": "LongBlankRun", "n": n, "e": "LicenseRef-1" + " " * n + "AND LicenseRef-2"})
    # flat AND chains whose terms carry '+' and sit in multi-version table families (no OR anywhere in the text)
    t = ctx.tables
    big = [[x for st in fam for x in st if not x.endswith("-or-later") and not x.endswith("-only")] for fam in t["ranges"] if len(fam) >= 4]
    ranged = [f[0] + "+" for f in big if f]
    if ranged:
        extra["AndChainRanged"] = [{"family": "AndChainRanged", "n": n, "e": " AND ".join(ranged[k % len(ranged)] for k in range(n)),
                                    "a": [ranged[0][:-1]]} for n in sizes]
        extra["AndChainRangedDistinct"] = [{"family": "AndChainRangedDistinct", "n": n, "e": " AND ".join(ranged[:n]), "a": [ranged[0][:-1]]}
                                           for n in range(2, min(len(ranged), 16) + 1, 2)]
    # structural families: left / right nesting with leaf, AND-pair and OR-pair operands; one group repeated n times
    def T(k):
        return "LicenseRef-%d" % k
    small = [n for n in sizes if n <= 64]
    for op in ("AND", "OR"):
        for kind, operand in (("leaf", lambda k: T(k)), ("andpair", lambda k: T(2 * k) + " AND " + T(2 * k + 1)),
                              ("orpair", lambda k: "(" + T(2 * k) + " OR " + T(2 * k + 1) + ")")):
            if op == "AND" and kind == "orpair":
                continue    # an AND of OR groups is the known family (D8)
            lname, rname = "LeftNest-%s-%s" % (op, kind), "RightNest-%s-%s" % (op, kind)
            extra[lname], extra[rname] = [], []
            for n in small:
                e = T(0)
                for k in range(1, n + 1):
                    e = "(" + e + ") " + op + " " + operand(k)
                extra[lname].append({"family": lname, "n": n, "e": e})
                e = T(0)
                for k in range(1, n + 1):
                    e = operand(k) + " " + op + " (" + e + ")"
                extra[rname].append({"family": rname, "n": n, "e": e})
    for op in ("AND", "OR"):
        for gname, grp in (("andgroup", "(MIT AND ISC)"), ("orgroup", "(MIT OR ISC)"), ("term", "MIT")):
            if op == "AND" and gname == "orgroup":
                continue
            name = "Repeat-%s-%s" % (op, gname)
            extra[name] = [{"family": name, "n": n, "e": (" " + op + " ").join([grp] * n), "a": ["MIT"]} for n in small]
    # chains of UNLISTED -or-later forms (each one is rewritten in the scanner's buffer)
    unl = [x for x in t["active"] if not x.endswith("-only") and not x.endswith("-or-later") and x + "-or-later" not in t["active"]][:64]
    extra["OrLaterChain"] = [{"family": "OrLaterChain", "n": n, "e": " AND ".join(unl[k % len(unl)] + "-or-later" for k in range(n)), "a": [unl[0]]} for n in small]
    extra["OrLaterChainSame"] = [{"family": "OrLaterChainSame", "n": n, "e": " OR ".join([unl[0] + "-or-later"] * n), "a": [unl[0]]} for n in small]
    # the budget rule on the whole small vocabulary: every kind of lexeme, alone and in the smallest contexts, in every letter case
    # of the id, of the documented suffixes and of the keywords (no growth rule: the members are unrelated texts)
    vrng = random.Random(ctx.seed)
    vocab = []
    for text, kd, _c in lex_vocab(ctx, vrng, "all"):
        if kd in ("op", "plus", "other") or len(text) > 40:
            continue
        vocab += [text, text.upper(), text.lower(), text.swapcase()]
    vp1, vp2 = vrng.sample(Roles(ctx, vrng).unranged, 2)
    vexc = vrng.choice(t["exceptions"])
    for x in (vp1, vp2, ranged[0][:-1] if ranged else vp1):
        for suf in ("-only", "-ONLY", "-Only", "-onlY", "-or-later", "-OR-LATER", "-Or-Later", "-or-lateR", "-only+", "-ONLY+", "-or-later+", "+", "++",
                    "-only-only", "-or-later-or-later", "-only-or-later", "-or-later-only"):
            vocab += [x + suf, x.lower() + suf, x.upper() + suf]
        for w in (" WITH ", " with ", " With "):
            vocab += [x + w + vexc, x + w + vexc.upper(), x + "+" + w + vexc.lower()]
    vocab += ["LICENSEREF-a", "licenseref-a", "LicenseRef-A", "DOCUMENTREF-d:LicenseRef-a", "DocumentRef-d:LICENSEREF-a", "DocumentRef-D:LicenseRef-A",
              vexc, vexc + "-only", vexc + "-or-later", vexc.upper() + "-ONLY"]
    seenv = set()
    extra["Vocabulary"] = [{"family": "Vocabulary", "n": k + 1, "e": v, "a": [vp1], "nogrowth": True}
                           for k, v in enumerate(x for x in vocab if not (x in seenv or seenv.add(x)))]
    fams.update(extra)
    points, nontrivial = [], 0
    poly_note = {}
    for fam, members in sorted(fams.items()):
        members.sort(key=lambda c: c["n"])
        poly_note[fam] = members[0].get("poly", True)
        for fn in ("Satisfies", "ExtractLicenses", "ValidateLicenses"):
            seen = {}
            for c in members:
                a = c.get("a") or ["LicenseRef-1"]
                size = len(c["e"]) + sum(len(x) for x in a)
                m = measure(ctx, fn, c["e"], a if fn == "Satisfies" else [], tries=3)
                ctx.replayed += 1
                pt = {"family": fam, "fn": fn, "n": c["n"], "bytes_in": size, "alloc": m["alloc"], "ms": round(m["ns"] / 1e6, 1),
                      "aborted": m["aborted"], "law_cells": c.get("cells")}
                points.append(pt)
                nontrivial += 1
                over_budget = size <= 512 and (m["aborted"] or m["alloc"] > 64 * MiB or m["ns"] > 1e9)
                if over_budget:
                    ctx.mismatches.append({"what": "cost-budget", "fn": fn, "family": fam, "expr": c["e"][:300], "list": a[:3],
                                           "expected": "<= 64 MiB allocated and <= 1 s for an input of <= 512 bytes",
                                           "observed": pt, "source": "measure"})
                prev = seen.get(c["n"] // 2) if c["n"] % 2 == 0 and not c.get("nogrowth") else None
                # time: a doubling that turns well under a third of a second into more than ten seconds (the watchdog's limit)
                # or multiplies a measurable time by more than 32 is not low-degree polynomial growth
                if prev and not prev["aborted"]:
                    t_prev, t_now = prev["ms"], (10000.0 if m["aborted"] == "time-limit" else m["ns"] / 1e6)
                    if t_now >= 1000.0 and t_prev * 32 < t_now:
                        ctx.mismatches.append({"what": "cost-growth", "fn": fn, "family": fam, "expr": c["e"][:300], "list": a[:3],
                                               "expected": "time(2n)/time(n) <= 32 once time(2n) reaches a second",
                                               "observed": {"ms_n": t_prev, "ms_2n": t_now, "at": pt}, "source": "measure (time)"})
                if prev and prev["alloc"] > 256 * 1024:
                    ratio = m["alloc"] / prev["alloc"]
                    if ratio > 16:
                        ctx.mismatches.append({"what": "cost-growth", "fn": fn, "family": fam, "expr": c["e"][:300], "list": a[:3],
                                               "expected": "alloc(2n)/alloc(n) <= 16 (degree <= 4)", "observed": {"ratio": ratio, "at": pt, "prev": prev},
                                               "source": "measure"})
                seen[c["n"]] = pt
                if (m["aborted"] or m["alloc"] > 256 * MiB) and not c.get("nogrowth"):
                    break   # larger members only cost more
    # cost must be a function of the call's own arguments: the same small calls after many distinct unrelated calls
    hist_n = 12000 if thorough else 5000
    for fn, e, a in (("Satisfies", "MiT AND (isc OR LicenseRef-x)", ["MIT", "ISC"]), ("ExtractLicenses", "mIt OR Apache-2.0+", []),
                     ("ValidateLicenses", "gpl-2.0+ WITH Classpath-exception-2.0", [])):
        fresh = measure(ctx, fn, e, a, tries=2)
        after = measure(ctx, fn, e, a, tries=2, history=hist_n)
        ctx.replayed += 2
        pt = {"family": "AfterHistory", "fn": fn, "n": hist_n, "bytes_in": len(e), "alloc": after["alloc"], "alloc_fresh": fresh["alloc"],
              "ms": round(after["ns"] / 1e6, 1), "aborted": after["aborted"]}
        points.append(pt)
        nontrivial += 1
        if after["aborted"] or after["alloc"] > 3 * fresh["alloc"] + 256 * 1024:
            ctx.mismatches.append({"what": "cost-history", "fn": fn, "family": "AfterHistory", "expr": e, "list": a,
                                   "expected": "allocation of a call independent of how many unrelated calls came before (<= 3x fresh + 256 KiB)",
                                   "observed": pt, "source": "measure -history %d" % hist_n})
    for fam, ok in poly_note.items():
        if not ok:
            ctx.notes.append("model: the expansion law of family %s is not bounded by 4*terms^3 (design-level finding by TLC)" % fam)
    ctx.samples = points[:6]
    ctx.nontrivial = nontrivial
    ctx.stages.append({"stage": "measure", "kind": "one watched subprocess per (family, size, function); TotalAlloc delta and wall time", "points": points})
    ctx.exhaustive = False
    ctx.assumptions.append("cost is observed at finitely many sizes; allocation bytes are deterministic, wall time is used only against the 1 s budget with 3 tries")
    return finish(ctx, relevant={"cost-budget", "cost-growth", "cost-history"}, level="exploration",
                  rule="input families parameterised by size n (AND/OR chains, nesting, AND of ORs, OR of ANDs, alternating nest, left-nested "
                       "chain: texts and expansion laws from Families.tla, laws checked by TLC against the model's parser for n <= 8; long allowed "
                       "lists, long ids, long blank runs, flat AND chains of ranged terms; the same small calls after thousands of distinct unrelated calls) x 3 functions; budget rule (<= 512 input bytes: <= 64 MiB, <= 1 s) and growth rule "
                       "(alloc(2n)/alloc(n) <= 16); every measured point counts as non-trivial")


# --------------------------------------------------------------------------- C15
def c15(ctx):
    rng = random.Random(ctx.seed)
    thorough = ctx.tier == "thorough"
    pre = offset_prefixes(ctx, rng)
    if thorough:
        run_lex(ctx, "offsets3", rng, 3, [" "], focus="core", prefixes=pre)
        run_lex(ctx, "lex3", rng, 3, [" ", "  "])
    else:
        run_lex(ctx, "offsets2", rng, 2, [" "], prefixes=pre)
    ctx.drive("trace", "invalid", 1500 if thorough else 400, leaves=6)
    ctx.validate_trace("trace")
    # long expressions (several KB, several rewrites more than 4 KiB apart): the offender's position is known by construction
    je, jp = journal_env(ctx)
    lp = subprocess.run([ctx.harness, "longoffsets", "-seed", str(ctx.seed), "-n", str(300 if thorough else 60)], capture_output=True, text=True, timeout=900, env=je)
    after_harness(ctx, "long-offsets", lp.returncode, lp.stderr, jp)
    try:
        lo = json.loads(lp.stdout)
    except ValueError:
        raise Infra("longoffsets failed: " + lp.stderr[-1500:])
    ctx.replayed += lo["cases"]
    for b in lo.get("bad") or []:
        ctx.mismatches.append({"what": "panic" if b["panic"] else "offset", "fn": b["fn"], "expr": "<%d bytes> ...%s" % (b["len"], b["tail"]), "list": [],
                               "expected": {"offset": b["wantOffset"], "lexeme": b["wantLexeme"]}, "observed": {"offset": b["gotOffset"], "lexeme": b["gotLexeme"]},
                               "source": "long-offsets (position known by construction)"})
    ctx.stages.append({"stage": "long-offsets", "kind": "expressions of 4-8 KB with rewrites far apart, offender at a position known by construction", "cases": lo["cases"]})
    sessions(ctx)
    large_inputs(ctx)
    repetitions(ctx)
    return finish(ctx, relevant={"offset", "lexeme", "offset-no-error"},
                  rule="valid prefixes (with -or-later forms, '+', spaces, parentheses) x every lexeme sequence up to the bound ending in an "
                       "unknown id, a Ref prefix without a name or a foreign byte; the model scanner's caller-relative position and lexeme "
                       "are compared with the offset/lexeme parsed from the error text of ExtractLicenses and Satisfies (expression and "
                       "allowed-entry position); non-trivial = offset > 0")


def run_chars(ctx, name, rng, k):
    roles = Roles(ctx, rng)
    t = ctx.tables
    plain = rng.choice(roles.unranged)
    syms = ["(", ")", "+", ":", " ", plain, "-", "x", "#", "-or-later", "-only", "LicenseRef-", "AND", "WITH"]
    if ctx.tier == "thorough":
        act = set(t["active"])
        fold = [x for x in t["deprecated"] if not x.endswith("+") and x + "-or-later" in act]
        syms += ["OR", "DocumentRef-", rng.choice(t["exceptions"])] + ([rng.choice(fold)] if fold else [])
    ctx.write_params("MC_Chars_P", {"MaxSyms": str(k), "Symbols": tla_seq(syms)})
    ctx.notes.append("%s: symbols %s, <= %d per string, no separators" % (name, syms, k))
    r = ctx.run_tlc(name, "MC_Chars", "MC_Chars", timeout=3000, reps=2 if ctx.tier == "thorough" else 1)
    if r["violated"]:
        raise Infra("model-level invariant %s failed in MC_Chars with Dev = {} (specification problem, not a verdict)" % r["violated"])
    return r


def run_mut(ctx, name, rng, leaves):
    roles = Roles(ctx, rng)
    texts, universe, sel = roles.tree_roles()
    ctx.write_params("MC_Tree_P", {"MaxLeaves": str(leaves), "LeafTexts": tla_seq(texts), "Universe": tla_seq(universe)})
    ctx.notes.append("%s: mutations (every prefix, token deletion, token insertion) of every tree with <= %d leaves over %s" % (name, leaves, texts))
    r = ctx.run_tlc(name, "MC_Mut", "MC_Mut", timeout=3000)
    if r["violated"]:
        raise Infra("model-level invariant %s failed in MC_Mut with Dev = {} (specification problem, not a verdict)" % r["violated"])
    return r


def run_extremes(ctx, thorough):
    args = ["-depth", "200000" if thorough else "10000", "-terms", "5000" if thorough else "1500", "-long", "1000000" if thorough else "100000"]
    p = subprocess.run([ctx.harness, "extremes"] + args, capture_output=True, text=True, timeout=1500)
    try:
        r = json.loads(p.stdout)
    except ValueError:
        # the process died (e.g. fatal stack overflow): that is a crash no recover() can see
        ctx.mismatches.append({"what": "panic", "fn": "extremes", "expr": "", "list": args, "expected": "normal return",
                               "observed": "process died rc=%d: %s" % (p.returncode, p.stderr[-1500:]), "source": "extremes"})
        return
    ctx.replayed += r["calls"]
    for x in r.get("panics") or []:
        ctx.mismatches.append({"what": "panic", "fn": x["fn"], "expr": x["case"], "list": [], "expected": "no panic", "observed": x, "source": "extremes"})
    ctx.stages.append({"stage": "extremes", "kind": "nil/empty slices, nesting, long chains/ids/blank runs, byte soup through all entry points",
                       "cases": r["cases"], "calls": r["calls"], "params": args})
    ctx.assumptions.append("nesting is exercised up to depth %s; Go's 1 GB goroutine-stack limit is a fatal error beyond roughly 10^6 levels" % args[1])


# --------------------------------------------------------------------------- C04
def run_lists(ctx, name, rng, maxlist):
    roles = Roles(ctx, rng)
    t = ctx.tables
    p1, p2 = rng.sample(roles.unranged, 2)
    exc = rng.choice(t["exceptions"])
    comp = p1 + " AND " + p2
    # includes two strings that are equal up to letter case but differ in validity (lower-case operator)
    wexc = p2 + " WITH " + exc
    pool = [p1, p1.lower() if p1.lower() != p1 else p1.upper(), comp, comp.lower(), "(" + p2 + ")", "FOO-bar", p1 + " AND", "(",
            "", wexc, wexc.lower(), "LicenseRef-Ab", "LICENSEREF-AB"]
    exprs = [p1 + " OR " + p2, p1 + " OR", ""]
    ctx.write_params("MC_Lists_P", {"MaxList": str(maxlist), "Pool": tla_seq(pool), "Exprs": tla_seq(exprs)})
    ctx.notes.append("%s: pool %s, expressions %s, lists up to %d" % (name, pool, exprs, maxlist))
    r = ctx.run_tlc(name, "MC_Lists", "MC_Lists", timeout=3000)
    if r["violated"]:
        raise Infra("model-level invariant %s failed in MC_Lists (specification problem, not a verdict)" % r["violated"])
    return r


C04_WHATS = {"validity-disagreement", "validate-list", "result-with-error", "invalid-allowed-entry-accepted", "allowed-entry",
             "validate", "validity", "validate-shape", "verdict", "extract-error"}


def c04(ctx):
    rng = random.Random(ctx.seed)
    thorough = ctx.tier == "thorough"
    run_lists(ctx, "lists", rng, 4 if thorough else 3)
    run_lex(ctx, "lex3", rng, 3, [" "] if not thorough else [" ", "  "])
    lexL, lexE = pick_plain(ctx, rng), rng.choice(ctx.tables["exceptions"])
    ctx.write_cfg("MC_Tok", constants={"MaxLen": 5 if thorough else 4, "LexL": Q(lexL), "LexE": Q(lexE), "LexLR": Q("a"), "LexDR": Q("d")},
                  invariants=["GrammarInv", "TotalInv", "RoundTrip", "Emit"])
    r = ctx.run_tlc("tok", "MC_Tok", "MC_Tok", timeout=3000)
    if r["violated"]:
        raise Infra("model-level invariant %s failed in MC_Tok" % r["violated"])
    run_chars(ctx, "chars", rng, 4 if thorough else 3)
    run_mut(ctx, "mut", rng, 3 if thorough else 2)
    ctx.drive("trace", "lists", 1000 if thorough else 300, leaves=5)
    ctx.validate_trace("trace")
    sessions(ctx)
    large_inputs(ctx)
    repetitions(ctx)
    return finish(ctx, relevant=C04_WHATS,
                  rule="every list up to the bound over a 13-string pool as ValidateLicenses argument and as allowed list of three expressions; "
                       "every lexeme text and token sequence as single argument of all three entry points (agreement on validity, result "
                       "false/nil with every error, exact invalid list); non-trivial = mixed valid/invalid list or valid text")


# --------------------------------------------------------------------------- C03
def c03(ctx):
    rng = random.Random(ctx.seed)
    thorough = ctx.tier == "thorough"
    lexL, lexE = pick_plain(ctx, rng), rng.choice(ctx.tables["exceptions"])
    ctx.write_cfg("MC_Tok", constants={"MaxLen": 6 if thorough else 5, "LexL": Q(lexL), "LexE": Q(lexE), "LexLR": Q("a"), "LexDR": Q("d")},
                  invariants=["GrammarInv", "TotalInv", "RoundTrip", "Emit"])
    r = ctx.run_tlc("tok", "MC_Tok", "MC_Tok", timeout=3000)
    if r["violated"]:
        raise Infra("model-level invariant %s failed in MC_Tok" % r["violated"])
    run_lex(ctx, "lex3", rng, 3, [" "] if not thorough else [" ", "  "])
    if thorough:
        run_lex(ctx, "lex4", rng, 4, [" "], focus="core")
    run_tree(ctx, "tree", rng, 4 if thorough else 3)
    run_tree(ctx, "tree-sameid", rng, 3, "sameid")
    run_lists(ctx, "lists", rng, 3)
    run_chars(ctx, "chars", rng, 4)
    run_mut(ctx, "mut", rng, 3 if thorough else 2)
    run_extremes(ctx, thorough)
    ctx.drive("trace", "invalid", 2000 if thorough else 500, leaves=8)
    ctx.validate_trace("trace")
    sessions(ctx)
    large_inputs(ctx)
    repetitions(ctx)
    return finish(ctx, relevant={"panic"},
                  rule="all token-class sequences, lexeme texts (incl. foreign bytes, truncated Ref prefixes), expression trees x allowed "
                       "subsets and argument lists the model enumerates, each run through all three exported functions under recover(); "
                       "TLC: the descent's cursor is total (no PANIC outcome reachable); non-trivial = valid input")


# ---------------------------------------------------------------------------


# --------------------------------------------------------------------------- C05
def c05(ctx):
    rng = random.Random(ctx.seed)
    thorough = ctx.tier == "thorough"
    lexL = pick_plain(ctx) if ctx.seed == 1 else pick_plain(ctx, rng)
    lexE = ctx.tables["exceptions"][0] if ctx.seed == 1 else rng.choice(ctx.tables["exceptions"])
    ctx.write_cfg("MC_Tok", constants={"MaxLen": 6 if thorough else 5, "LexL": Q(lexL), "LexE": Q(lexE), "LexLR": Q("a"), "LexDR": Q("d")},
                  invariants=["GrammarInv", "TotalInv", "RoundTrip", "Emit"])
    r = ctx.run_tlc("tok", "MC_Tok", "MC_Tok", timeout=3000)
    if r["violated"]:
        raise Infra("model-level invariant %s failed in MC_Tok with Dev = {} (specification problem, not a verdict)" % r["violated"])
    n = r["summary"].get("tokenSequences", 0)
    if n != r["distinct"] - 1:
        raise Infra("token space: replayer enumerated %d sequences, TLC found %d states" % (n, r["distinct"]))
    # references NAMED like operators: still references (role, not text, decides what the descent takes for an operator)
    for lr, dr in (("AND", "OR"), ("WITH", "AND"), ("OR", "WITH")):
        ctx.write_cfg("MC_Tok", constants={"MaxLen": 5 if thorough else 4, "LexL": Q(lexL), "LexE": Q(lexE), "LexLR": Q(lr), "LexDR": Q(dr)},
                      invariants=["GrammarInv", "TotalInv", "RoundTrip", "Emit"])
        r2 = ctx.run_tlc("tok-ref-%s-%s" % (lr, dr), "MC_Tok", "MC_Tok", timeout=3000)
        if r2["violated"]:
            raise Infra("model-level invariant %s failed in MC_Tok (reference names %s/%s)" % (r2["violated"], lr, dr))
    if thorough:
        run_lex(ctx, "lex4", rng, 4, [" "], focus="core")
        run_lex(ctx, "lex3", rng, 3, [" ", "  "])
    else:
        run_lex(ctx, "lex3", rng, 3, [" "])
    ctx.drive("trace", "invalid", 600 if thorough else 250, leaves=6)
    ctx.validate_trace("trace")
    sessions(ctx)
    large_inputs(ctx)
    repetitions(ctx)
    return finish(ctx, relevant={"validity"},
                  rule="every token-class sequence up to the bound (TLC: descent vs reference grammar, scanner round trip; real code: "
                       "ValidateLicenses/ExtractLicenses/Satisfies on 4 renderings of each) + mutated valid expressions trace-validated; "
                       "non-trivial = accepted by the grammar")


CHECKS = {"C01": c01, "C02": c02, "C03": c03, "C04": c04, "C15": c15, "C05": c05, "C06": c06, "C07": c07, "C08": c08, "C10": c10, "C12": c12, "C13": c13, "C14": c14, "C09": c09, "C11": c11}

MC = "model_checking"
_NOTE = ("Exhaustive only inside the stated bounds (see the evidence file of each run); larger inputs are sampled by the seeded driver and "
         "trace-validated. Inputs outside the documented vocabulary (reading decisions R1-R3, R9 in DESIGN.md) are checked relationally only. "
         "Trusted: TLC, the Go toolchain, the harness' projection of observations.")


def _info(ref, technique, text, level=MC, note=_NOTE):
    return dict(level=level, ref=ref, technique=technique, text=text, note=note)


INFO = {
    "C01": _info("5 (C01)", "TLC over all expression trees x allowed subsets (Boolean evaluation vs OR-of-ANDs design) + replay on real Satisfies + trace validation",
                 "TLC enumerates every expression tree up to the leaf bound over role texts from the shipped tables and, for every non-empty "
                 "subset of an allowed universe, checks precedence/grouping of the parser model, expansion = Boolean evaluation and operational "
                 "= declarative matching; every (text, list) pair is replayed through the real Satisfies; larger random trees over the whole "
                 "tables are trace-validated against SpdxTrace.tla."),
    "C02": _info("5 (C02)", "TLC over ordered term pairs from the shipped tables (MatchOp = MatchDecl, symmetry, reflexivity) + replay as Satisfies(a,[b])",
                 "Every ordered pair of a set of term texts generated from the shipped tables (all table/natural families x spellings x "
                 "exceptions, cross pairs of listed ids, LicenseRefs) is a TLC state; the operational matcher model must equal C02's rule, be "
                 "symmetric and reflexive; each pair is replayed on the real code."),
    "C03": _info("5 (C03)", "TLC-enumerated input spaces (token sequences, lexeme texts incl. foreign bytes, trees, lists) executed on all entry points under recover(); total-cursor invariant in the parser model",
                 "The parser model's cursor is total (no PANIC outcome reachable, checked over every token sequence); all enumerated inputs and "
                 "seeded mutations of valid expressions are run through all three functions under recover(); any panic is a violation."),
    "C04": _info("5 (C04)", "TLC over argument lists and single strings (error rule of Api.tla) + replay through all three entry points + trace validation",
                 "Every list up to the bound over a pool of valid/invalid/compound strings, every lexeme text and token sequence: the model's error "
                 "rule is checked position by position, the real functions must return exactly the invalid elements / error iff invalid / "
                 "false-nil with every error, and must agree with one another."),
    "C05": _info("5 (C05)", "TLC exhaustive enumeration of token and lexeme sequences against a reference grammar + replay on real code + trace validation",
                 "TLC enumerates every token-class sequence up to the bound (transcribed recursive descent = documented grammar; character-level "
                 "scanner model reads each rendering back as those tokens) and every lexeme sequence over C05's alphabet in loose and tight spacing "
                 "(character-level scanner = lexeme-level reading); every text goes through the real ValidateLicenses/ExtractLicenses/Satisfies."),
    "C06": _info("5 (C06)", "TLC over all expression trees (expansion keeps every leaf) + replay of ExtractLicenses with round trips + trace validation",
                 "For every tree up to the bound the model's distinct terms (with their accepted spellings) are compared with the real "
                 "ExtractLicenses output: none missing, none invented, no duplicates, every returned string re-extracts to itself and the returned "
                 "list satisfies the expression."),
    "C07": _info("5 (C07)", "TLC over list transformations (swap/duplicate/re-spell actions) and all sub-list pairs + replay on real Satisfies",
                 "Every non-empty sub-list in every order, with duplicated and re-spelled entries, is a TLC state whose term set must equal the "
                 "base list's; the real verdict must equal the base list's; monotonicity is checked over all A subset-of B on the verdict vectors "
                 "of every tree (model invariant and directly on the observed verdicts)."),
    "C08": _info("5 (C08)", "TLC over listed ids x spelling pairs x contexts with the shipped table (Interchangeable invariant) + paired replay on real code",
                 "For every listed id and both spelling pairs, in every term and syntactic context, the model (with the shipped family table) must "
                 "predict identical results and the two real calls must agree with each other and with the model."),
    "C09": _info("5 (C09)", "TLC over listed ids x case variants (scanner token invariant, fold-uniqueness of the lists) + paired replay + trace validation",
                 "Every listed license and exception id in lower/upper/alternating case must scan to the list's token in the model and give the "
                 "same validity/verdict and list-cased ExtractLicenses output on the real code."),
    "C10": _info("5 (C10)", "TLC over rewrite chains (Boolean-algebra rules as actions, RuleInv) + replay of every rendering against the ORIGINAL's verdicts",
                 "From every small tree, chains of commute/associate/idempotence/absorption/distribution rewrites at any node: TLC proves each rule "
                 "preserves the Boolean function; all renderings of the rewritten tree and the (E) AND/OR (F) compositions are replayed and must "
                 "give the original's verdict for every allowed subset (and the original's term set for term-preserving chains)."),
    "C11": _info("5 (C11)", "TLC over the shipped family table (six well-formedness clauses) and over id pairs with natural-version-order expectations + replay",
                 "One TLC state per family evaluates the well-formedness clauses on the table exported from the real package; pairs of ids of every "
                 "table/natural family and across families carry the answer the NATURAL version order gives and are replayed as Satisfies(a,[b])."),
    "C12": _info("5 (C12)", "TLC over the SPDX JSON vs the lists read through the real package vs Gen.tla's file rendering; real generator run; per-id acceptance replay",
                 "TLC reads cmd/*.json itself, compares the derived lists with those the real package returns and Gen.tla's lines with the committed "
                 "files, checks disjointness and fold-uniqueness, and emits per-id acceptance obligations replayed on all entry points; the real "
                 "generator is run in a scratch copy and must reproduce the committed bytes."),
    "C13": _info("5 (C13)", "TLC over all stage interleavings of concurrent calls (SpdxConc.tla) replayed through blocking hooks; histories; -race stress",
                 "TLC enumerates every interleaving of the stage steps of 2-3 calls sharing argument slices; each schedule is replayed "
                 "deterministically on the real code via the verif hooks (shared slices compared after every step, results with the sequential "
                 "ones); call histories with repeats in three orders; the free-running workload runs under the Go race detector; stdout/stderr "
                 "are captured.",
                 note="Gated schedules interleave at stage-hook granularity; absence of data races is decided by the Go race detector on a sampled "
                      "free-running workload, not by the model."),
    "C14": _info("5 (C14)", "TLA+ cost laws per input family (checked by TLC against the model's expansion) + measured allocation of the real code in watched subprocesses",
                 "Families.tla gives texts and expansion-size laws; TLC checks the laws against the model's own parser/expansion for n <= 8 and "
                 "classifies each family as polynomial or not; the real functions are measured (TotalAlloc, time) per family and size against a "
                 "budget rule and a growth rule.", level="exploration",
                 note="A performance property: the verdict is a measurement at finitely many sizes; TLA+ contributes families and the design-level law."),
    "C15": _info("5 (C15)", "TLC over valid prefixes x lexeme sequences ending in an offender (scanner position = caller-relative offset) + replay of error texts",
                 "The scanner model keeps positions in the caller's string; for every enumerated text whose first error is an unknown or missing id "
                 "the offset and lexeme parsed from the real error text (ExtractLicenses, Satisfies expression and allowed entry) must equal the "
                 "model's and point at that lexeme in the caller's string."),
}


def setup():
    """build the harness once (warms the Go build cache) and parse every specification module"""
    ctx = Ctx("setup", "quick", 1)
    try:
        ctx.build()
        ctx.export()
        for m in sorted(glob.glob(os.path.join(ctx.spec, "*.tla"))):
            if os.path.basename(m) == "MatchSym.tla":
                continue   # a TLAPS module (EXTENDS TLAPS): parsed and checked by tlapm, not by SANY/TLC
            p = subprocess.run(["java", "-cp", TLA_CP, "tla2sany.SANY", os.path.basename(m)], cwd=ctx.spec, capture_output=True, text=True)
            if p.returncode != 0 or "Semantic errors" in p.stdout or "*** Errors" in p.stdout or "Could not parse" in p.stdout:
                log(p.stdout[-3000:])
                log("SANY failed for", m)
                return 2
        log("setup ok")
        return 0
    except Infra as e:
        log("setup failed:", e)
        return 2


def replay(prop, path):
    """re-run one recorded disagreement on the current tree"""
    ctx = Ctx(prop, "quick", 1)
    try:
        ctx.build()
        with open(path) as f:
            m = json.load(f)
        if m.get("record"):
            p = subprocess.run([ctx.harness, "run1", path], capture_output=True, text=True)
            sys.stdout.write(p.stdout)
            sys.stderr.write(p.stderr)
            return p.returncode
        if m.get("fn") not in ("Satisfies", "ExtractLicenses", "ValidateLicenses"):
            print("this finding is not a single call (%s); re-run ./check %s quick" % (m.get("fn"), prop))
            return 2
        ctx.export()
        p = subprocess.run([ctx.harness, "run1", "-event", path, os.path.join(ctx.spec, "trace.ndjson")], capture_output=True, text=True)
        sys.stdout.write(p.stdout)
        if m.get("what") == "crash":
            print("recorded:", json.dumps({k: m.get(k) for k in ("what", "fn", "expr", "list", "expected", "observed")}))
            if looks_fatal(p.returncode, p.stderr):
                print("the call kills the process again: " + next((l for l in p.stderr.splitlines() if "fatal error:" in l or "runtime:" in l), "rc=%d" % p.returncode))
                print("VIOLATION property=%s replay=%s" % (prop, path))
                return 1
            print("the call returns on the current tree")
            return 0 if p.returncode == 0 else 2
        if p.returncode != 0:
            sys.stderr.write(p.stderr)
            return 2
        found = ctx.validate_trace("replay")
        print("recorded:", json.dumps({k: m.get(k) for k in ("what", "fn", "expr", "list", "expected", "observed")}))
        if [x for x in found if x["what"] == m.get("what")]:
            print("SpdxTrace.tla rejects the event again: %s" % sorted({x["what"] for x in found}))
            print("VIOLATION property=%s replay=%s" % (prop, path))
            return 1
        print("the specification accepts the event on the current tree (other reasons: %s)" % sorted({x["what"] for x in found}))
        return 0
    except Infra as e:
        log(e)
        return 2
