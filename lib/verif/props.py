"""Per-property checks.  Each takes a Ctx (harness built from the working tree, tables exported,
spec copied into the scratch directory) and returns the exit code."""
import glob, json, os, random, shutil, subprocess, sys, tempfile
from .core import Ctx, Infra, finish, log, VERIF, REPO, TLA_CP, GOENV, NCPU

Q = lambda s: '"%s"' % s  # TLA+ string constant


def pick_plain(ctx, rng=None):
    """an active id that the scanner reads as itself whatever follows (no suffix, no listed -or-later twin)"""
    t = ctx.tables
    low = {x.lower() for x in t["active"] + t["exceptions"]}
    plain = [x for x in t["active"] if not x.endswith("-only") and not x.endswith("-or-later") and x.lower() + "-or-later" not in low]
    if rng is None:
        return "MIT" if "MIT" in plain else plain[0]
    return rng.choice(plain)


# --------------------------------------------------------------------------- C05
def c05(ctx):
    rng = random.Random(ctx.seed)
    thorough = ctx.tier == "thorough"
    lexL = pick_plain(ctx) if ctx.seed == 1 else pick_plain(ctx, rng)
    lexE = ctx.tables["exceptions"][0] if ctx.seed == 1 else rng.choice(ctx.tables["exceptions"])
    ctx.write_cfg("MC_Tok", constants={"MaxLen": 6 if thorough else 5, "LexL": Q(lexL), "LexE": Q(lexE)},
                  invariants=["GrammarInv", "TotalInv", "RoundTrip", "Emit"])
    r = ctx.run_tlc("tok", "MC_Tok", "MC_Tok", timeout=3000)
    if r["violated"]:
        raise Infra("model-level invariant %s failed in MC_Tok with Dev = {} (specification problem, not a verdict)" % r["violated"])
    n = r["summary"].get("tokenSequences", 0)
    if n != r["distinct"] - 1:
        raise Infra("token space: replayer enumerated %d sequences, TLC found %d states" % (n, r["distinct"]))
    ctx.drive("trace", "invalid", 600 if thorough else 250, leaves=6)
    ctx.validate_trace("trace")
    return finish(ctx, relevant={"validity"},
                  rule="every token-class sequence up to the bound (TLC: descent vs reference grammar, scanner round trip; real code: "
                       "ValidateLicenses/ExtractLicenses/Satisfies on 4 renderings of each) + mutated valid expressions trace-validated; "
                       "non-trivial = accepted by the grammar")


CHECKS = {"C05": c05}

MC = "model_checking"
INFO = {
    "C05": dict(level=MC, ref="5 (C05)", technique="TLC exhaustive enumeration of token/lexeme sequences against a reference grammar + replay on real code + trace validation",
                text="TLC enumerates every token-class sequence up to the bound and checks that the transcribed recursive descent accepts exactly "
                     "the documented grammar and that the character-level scanner model reads each rendering back as those tokens; every sequence "
                     "is then rendered (loose/tight, model and seed-chosen lexemes) and run through the real ValidateLicenses/ExtractLicenses/"
                     "Satisfies, whose validity verdict must equal the model's; mutated expressions from the whole tables are trace-validated.",
                note="Exhaustive only up to the stated token/lexeme bounds; inputs outside the documented vocabulary (R1-R3 in DESIGN.md) are "
                     "checked relationally only. Trusted: TLC, the Go toolchain, the rendering code shared by model and harness (cross-checked "
                     "by the RoundTrip invariant)."),
}


def setup():
    """build the harness once (warms the Go build cache) and parse every specification module"""
    ctx = Ctx("setup", "quick", 1)
    try:
        ctx.build()
        ctx.export()
        for m in sorted(glob.glob(os.path.join(ctx.spec, "*.tla"))):
            p = subprocess.run(["java", "-cp", TLA_CP, "tla2sany.SANY", os.path.basename(m)], cwd=ctx.spec, capture_output=True, text=True)
            if p.returncode != 0 or "Semantic errors" in p.stdout or "*** Errors" in p.stdout or "Could not parse" in p.stdout:
                log(p.stdout[-3000:])
                log("SANY failed for", m)
                return 2
        log("setup ok")
        return 0
    except Infra as e:
        log("setup failed:", e)
        return 2


def replay(prop, path):
    """re-run one recorded disagreement on the current tree"""
    ctx = Ctx(prop, "quick", 1)
    try:
        ctx.build()
    except Infra as e:
        log(e)
        return 2
    with open(path) as f:
        m = json.load(f)
    p = subprocess.run([ctx.harness, "run1", path], capture_output=True, text=True)
    sys.stdout.write(p.stdout)
    sys.stderr.write(p.stderr)
    return p.returncode
